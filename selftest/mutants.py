"""Catalogue of deliberate breakages (mutants) and behaviour-preserving
refactors, as exact text substitutions on files under src/decaylanguage.

Each entry: name -> {"prop": id, "expect": "caught" | "pass", "edits": [(relative file, old, new), ...], "opts": {...}, "why": str}
Applied to a scratch copy of /repo/src under /var/tmp by selftest/sensitivity.py; never to /repo.
"""

UTIL = "decaylanguage/utils/utilities.py"
DEC = "decaylanguage/dec/dec.py"
LARK = "decaylanguage/data/decfile.lark"
VIEW = "decaylanguage/decay/viewer.py"

EXIT_NEW = """    def __exit__(self, *args: list[Any]) -> None:
        self.set_config(**self.old_configs.pop())
"""
ENTER_NEW = """    def __enter__(self) -> None:
        old_config = copy(DescriptorFormat.config)
        self.set_config(**self.new_config)
        self.old_configs.append(old_config)
"""

MUTANTS = {
    # ------------------------------------------------------------------ C14
    "c14_restore_only_on_success": {
        "prop": "C14", "expect": "caught", "opts": {"programs": 40000},
        "why": "format restored only when the block ends normally",
        "edits": [(UTIL, EXIT_NEW, """    def __exit__(self, *args: list[Any]) -> None:
        old = self.old_configs.pop()
        if args[0] is None:
            self.set_config(**old)
""")],
    },
    "c14_restore_defaults": {
        "prop": "C14", "expect": "caught", "opts": {"programs": 40000},
        "why": "exit restores the library defaults instead of the saved format",
        "edits": [(UTIL, EXIT_NEW, """    def __exit__(self, *args: list[Any]) -> None:
        self.old_configs.pop()
        self.set_config("{mother} -> {daughters}", "({mother} -> {daughters})")
""")],
    },
    "c14_assign_before_validating_second": {
        "prop": "C14", "expect": "caught", "opts": {"programs": 40000},
        "why": "first pattern is stored before the second one is validated",
        "edits": [(UTIL, """        for pattern in new_config.values():
            wildcards = {""", """        for key, pattern in new_config.items():
            if key == "sub_decay_pattern":
                DescriptorFormat.config = {**DescriptorFormat.config, "decay_pattern": decay_pattern}
            wildcards = {""")],
    },
    "c14_single_save_slot": {
        "prop": "C14", "expect": "caught", "opts": {"programs": 80000},
        "why": "one save slot per object: only re-entrant use breaks",
        "edits": [(UTIL, ENTER_NEW, """    def __enter__(self) -> None:
        old_config = copy(DescriptorFormat.config)
        self.set_config(**self.new_config)
        self.old_configs[:] = [old_config]
"""), (UTIL, EXIT_NEW, """    def __exit__(self, *args: list[Any]) -> None:
        self.set_config(**self.old_configs[0])
""")],
    },
    "c14_save_by_reference": {
        "prop": "C14", "expect": "caught", "opts": {"programs": 40000},
        "why": "saved format is an alias of the live dictionary which set_config then updates in place",
        "edits": [(UTIL, "        old_config = copy(DescriptorFormat.config)\n", "        old_config = DescriptorFormat.config\n"),
                  (UTIL, "        DescriptorFormat.config = new_config\n", "        DescriptorFormat.config.update(new_config)\n")],
    },
    "c14_accepts_extra_placeholder": {
        "prop": "C14", "expect": "caught", "opts": {"programs": 40000},
        "why": "validation only requires the two names to be present (superset accepted)",
        "edits": [(UTIL, "            if wildcards != expected_wildcards:", "            if not wildcards >= expected_wildcards:")],
    },
    "c14_refactor_contextlib": {
        "prop": "C14", "expect": "pass", "opts": {"programs": 40000},
        "why": "behaviour-preserving rewrite: per-entry save kept in a closure list, exit via try/finally helper",
        "edits": [(UTIL, ENTER_NEW, """    def __enter__(self) -> None:
        saved = dict(DescriptorFormat.config)
        DescriptorFormat.set_config(self.new_config["decay_pattern"], self.new_config["sub_decay_pattern"])
        self.old_configs = [*self.old_configs, saved]
"""), (UTIL, EXIT_NEW, """    def __exit__(self, *args: list[Any]) -> None:
        *rest, saved = self.old_configs
        self.old_configs = rest
        DescriptorFormat.config = dict(saved)
""")],
    },
    # ------------------------------------------------------------------ C02
    "c02_newline_without_cr": {
        "prop": "C02", "expect": "caught", "opts": {"gen_runs": 96, "fault_runs": 0, "file_deliveries": 0},
        "why": "_NEWLINE no longer accepts \\r\\n: CRLF text through from_string fails",
        "edits": [(LARK, "_NEWLINE: ( /\\r?\\n[\\t ]*/ | COMMENT )", "_NEWLINE: ( /\\n[\\t ]*/ | COMMENT )")],
    },
    "c02_comment_stops_at_semicolon": {
        "prop": "C02", "expect": "caught", "opts": {"gen_runs": 96, "fault_runs": 0, "file_deliveries": 0},
        "why": "a comment containing ';' ends there and the rest is parsed as code",
        "edits": [(LARK, "COMMENT : /[#][^\\n]*/", "COMMENT : /[#][^\\n;]*/")],
    },
    "c02_no_newline_between_files": {
        "prop": "C02", "expect": "caught", "opts": {"gen_runs": 160, "fault_runs": 0, "file_deliveries": 0},
        "why": "files are concatenated without a separating newline: a file lacking a final newline glues onto the next",
        "edits": [(DEC, "                    stream.write(\"\\n\")\n", "")],
    },
    "c02_enddecay_treated_as_end": {
        "prop": "C02", "expect": "caught", "opts": {"gen_runs": 32, "fault_runs": 0, "file_deliveries": 0},
        "why": "the lone-End filter also drops Enddecay lines",
        "edits": [(DEC, """                        if not (
                            beg.startswith("End") and not beg.startswith("Enddecay")
                        ):""", """                        if not beg.startswith("End"):""")],
    },
    "c02_open_newline_empty": {
        "prop": "C02", "expect": "pass", "opts": {"gen_runs": 96, "fault_runs": 0, "file_deliveries": 0},
        "why": "files opened with newline='' keep \\r\\n: the grammar accepts that, so answers are unchanged (equivalent mutant, must not alarm)",
        "edits": [(DEC, 'filename.open(encoding="utf_8_sig")', 'filename.open(encoding="utf_8_sig", newline="")')],
    },
    "c02_end_filter_ignores_indentation": {
        "prop": "C02", "expect": "caught", "opts": {"gen_runs": 160, "fault_runs": 0, "file_deliveries": 0},
        "why": "an indented End line in an intermediate file is no longer dropped",
        "edits": [(DEC, 'beg = line.lstrip("\\ufeff").lstrip()', 'beg = line.lstrip("\\ufeff")')],
    },
    "c02_swallow_oserror": {
        "prop": "C02", "expect": "caught", "opts": {"gen_runs": 0, "fault_runs": 96, "file_deliveries": 0},
        "why": "read errors are swallowed and the truncated text is parsed",
        "edits": [(DEC, """                with filename.open(encoding="utf_8_sig") as file:
                    for line in file:""", """                with filename.open(encoding="utf_8_sig") as file:
                    for line in _tolerant(file):"""),
                  (DEC, "class DecFileNotParsed(RuntimeError):", """def _tolerant(file):
    try:
        yield from file
    except OSError:
        return


class DecFileNotParsed(RuntimeError):""")],
    },
    "c02_skip_missing_file": {
        "prop": "C02", "expect": "caught", "opts": {"gen_runs": 0, "fault_runs": 96, "file_deliveries": 0},
        "why": "a file that disappears between is_file() and open() is silently skipped",
        "edits": [(DEC, """                with filename.open(encoding="utf_8_sig") as file:
                    for line in file:""", """                try:
                    file = filename.open(encoding="utf_8_sig")
                except FileNotFoundError:
                    continue
                with file:
                    for line in file:""")],
    },
    "c02_strip_trailing_comment_by_hand": {
        "prop": "C02", "expect": "caught", "opts": {"gen_runs": 160, "fault_runs": 0, "file_deliveries": 0},
        "why": "file lines are cut at '#' before parsing and the line end is lost with the comment (string input untouched)",
        "edits": [(DEC, "                            stream.write(line)\n", "                            stream.write(line.split('#', 1)[0] if '#' in line else line)\n")],
    },
    "c02_read_whole_file_splitlines": {
        "prop": "C02", "expect": "caught", "opts": {"gen_runs": 160, "fault_runs": 0, "file_deliveries": 0},
        "why": "file read with builtin open() and str.splitlines(keepends=True): looks equivalent to line iteration but also splits at form feed, "
               "NEL and U+2028 inside comments (was filed as a harmless refactor until those characters joined the comment alphabet)",
        "edits": [(DEC, """                with filename.open(encoding="utf_8_sig") as file:
                    for line in file:""", """                with open(filename, encoding="utf_8_sig") as file:
                    for line in file.read().splitlines(keepends=True):""")],
    },
    # ------------------------------------------------------------------ C08
    "c08_copy_shallow": {
        "prop": "C08", "expect": "caught", "opts": {"sessions": 200, "file_sessions": 0},
        "why": "CopyDecay makes a shallow copy: renaming the mother renames the source",
        "edits": [(DEC, "                copied_decay = copy.deepcopy(match)\n", "                copied_decay = copy.copy(match)\n")],
    },
    "c08_copy_shares_lines": {
        "prop": "C08", "expect": "caught", "opts": {"sessions": 200, "file_sessions": 0},
        "why": "CopyDecay builds a new top node over the source's decay-line nodes (passes the test suite; black-box invisible)",
        "edits": [(DEC, """                copied_decay = copy.deepcopy(match)
                copied_decay.children[0].children[0].value = decay2copy
""", """                copied_decay = Tree(
                    "decay",
                    [Tree("particle", [Token("LABEL", decay2copy)]), *match.children[1:]],
                )
""")],
    },
    "c08_conj_without_deepcopy": {
        "prop": "C08", "expect": "caught", "opts": {"sessions": 200, "file_sessions": 0},
        "why": "conjugation is applied to the source tree itself",
        "edits": [(DEC, "        cdecays = [copy.deepcopy(tree) for tree in trees_to_conjugate]\n", "        cdecays = list(trees_to_conjugate)\n")],
    },
    "c08_dict_aliases_cached": {
        "prop": "C08", "expect": "caught", "opts": {"sessions": 400, "file_sessions": 0},
        "why": "dict_aliases() hands out one cached dictionary per parsed file: mutating it changes later answers",
        "edits": [(DEC, """        self._check_parsing()
        return get_aliases(self._parsed_dec_file)
""", """        self._check_parsing()
        key = id(self._parsed_dec_file)
        if key not in _ALIAS_CACHE:
            _ALIAS_CACHE[key] = get_aliases(self._parsed_dec_file)
        return _ALIAS_CACHE[key]
"""), (DEC, "class DecFileNotParsed(RuntimeError):", "_ALIAS_CACHE: dict = {}\n\n\nclass DecFileNotParsed(RuntimeError):")],
    },
    "c08_chains_memo_class_level": {
        "prop": "C08", "expect": "caught", "opts": {"sessions": 400, "file_sessions": 0},
        "why": "build_decay_chains memoised per (mother, stable set) at class level: leaks across instances and hands out internal objects",
        "edits": [(DEC, """        info = []
        for dm in self._find_decay_modes(mother):
            d = self._decay_mode_details(dm, display_photos_keyword=False)
""", """        memo_key = (mother, tuple(stable_particles))
        if memo_key in _CHAIN_MEMO:
            return _CHAIN_MEMO[memo_key]
        info = []
        for dm in self._find_decay_modes(mother):
            d = self._decay_mode_details(dm, display_photos_keyword=False)
"""), (DEC, """            info.append(d)

        return {mother: info}
""", """            info.append(d)

        _CHAIN_MEMO[memo_key] = {mother: info}
        return _CHAIN_MEMO[memo_key]
"""), (DEC, "class DecFileNotParsed(RuntimeError):", "_CHAIN_MEMO: dict = {}\n\n\nclass DecFileNotParsed(RuntimeError):")],
    },
    "c08_print_normalize_writes_back": {
        "prop": "C08", "expect": "caught", "opts": {"sessions": 800, "file_sessions": 0},
        "why": "print_decay_modes(normalize=True) writes normalised values into the tree and restores them at the end: only a kill in between shows",
        "edits": [(DEC, """        max_length_string = str(max_length + 2)
        for bf, fs, model, model_params in ls:""", """        if normalize and norm:
            saved = [dm.children[0].children[0].value for dm in dms]
            for dm in dms:
                dm.children[0].children[0].value = repr(float(dm.children[0].children[0].value) / norm)
            ls = [(bf / norm, fs, model, model_params) for bf, fs, model, model_params in ls]
            norm = 1.0
        max_length_string = str(max_length + 2)
        for bf, fs, model, model_params in ls:"""), (DEC, """            print(line.rstrip() + ";")  # noqa: T201
""", """            print(line.rstrip() + ";")  # noqa: T201
        if normalize and "saved" in locals():
            for dm, v in zip(dms, saved):
                dm.children[0].children[0].value = v
""")],
    },
    "c08_reparse_extends": {
        "prop": "C08", "expect": "caught", "opts": {"sessions": 200, "file_sessions": 0},
        "why": "a second parse() adds to the tables of the first instead of replacing them",
        "edits": [(DEC, "        self._parsed_decays = get_decays(self._parsed_dec_file)\n",
                   "        self._parsed_decays = (self._parsed_decays or []) + get_decays(self._parsed_dec_file)\n")],
    },
    "c08_mother_names_internal_list": {
        "prop": "C08", "expect": "caught", "opts": {"sessions": 400, "file_sessions": 0},
        "why": "list_decay_mother_names() returns a cached internal list",
        "edits": [(DEC, """        return [get_decay_mother_name(d) for d in self._parsed_decays]  # type: ignore[union-attr]
""", """        key = (id(self._parsed_decays), len(self._parsed_decays))
        if key not in _NAMES_CACHE:
            _NAMES_CACHE[key] = [get_decay_mother_name(d) for d in self._parsed_decays]
        return _NAMES_CACHE[key]
"""), (DEC, "class DecFileNotParsed(RuntimeError):", "_NAMES_CACHE: dict = {}\n\n\nclass DecFileNotParsed(RuntimeError):")],
    },
    "c08_include_switch_sticky": {
        "prop": "C08", "expect": "caught", "opts": {"sessions": 400, "file_sessions": 0},
        "why": "once charge-conjugate decays were included, a later parse(include_ccdecays=False) still includes them",
        "edits": [(DEC, "        self._include_ccdecays = include_ccdecays or False\n",
                   "        self._include_ccdecays = bool(include_ccdecays or (self._parsed_decays is not None and self._include_ccdecays))\n")],
    },
    "c08_refactor_class_level_lark_cache": {
        "prop": "C08", "expect": "pass", "opts": {"sessions": 200, "file_sessions": 0},
        "why": "behaviour-preserving: compiled Lark parser cached at class level keyed by grammar text, options and model list",
        "edits": [(DEC, """        parser = Lark(
            self.grammar(),
            parser=opts["parser"],
            lexer=opts["lexer"],
            edit_terminals=opts["edit_terminals"],
            **extraopts,
        )
""", """        cache_key = (
            self.grammar(),
            opts["parser"],
            opts["lexer"],
            tuple(self._additional_decay_models or ()),
            repr(sorted(extraopts.items())),
        )
        if cache_key not in _LARK_CACHE:
            _LARK_CACHE[cache_key] = Lark(
                self.grammar(),
                parser=opts["parser"],
                lexer=opts["lexer"],
                edit_terminals=opts["edit_terminals"],
                **extraopts,
            )
        parser = _LARK_CACHE[cache_key]
"""), (DEC, "class DecFileNotParsed(RuntimeError):", "_LARK_CACHE: dict = {}\n\n\nclass DecFileNotParsed(RuntimeError):")],
    },
}

MUTANTS.update({
    # ------------------------------------------------------------------ C15
    "c15_edge_label_from_previous_line": {
        "prop": "C15", "expect": "caught", "opts": {"sessions": 300},
        "why": "edge label taken from the previous sibling line for tables with four or more lines",
        "edits": [(VIEW, """                    _bf = subchain[idm]["bf"]
""", """                    _bf = subchain[idm - 1 if (n_decaymodes >= 4 and idm) else idm]["bf"]
""")],
    },
    "c15_leaf_cells_sorted": {
        "prop": "C15", "expect": "caught", "opts": {"sessions": 300},
        "why": "daughters shown in leaf nodes are sorted",
        "edits": [(VIEW, """            label = html_table_label(list_parts, bgcolor="#eef3f8")
""", """            label = html_table_label(sorted(list_parts), bgcolor="#eef3f8")
""")],
    },
    "c15_counter_reset_per_viewer": {
        "prop": "C15", "expect": "caught", "opts": {"sessions": 300},
        "why": "node counter restarts for every viewer: ids repeat across graphs of a session",
        "edits": [(VIEW, """        # Build the actual graph from the input decay chain structure
        self._build_decay_graph()
""", """        # Build the actual graph from the input decay chain structure
        global counter
        counter = iter(itertools.count())
        self._build_decay_graph()
""")],
    },
    "c15_counter_reset_on_failure": {
        "prop": "C15", "expect": "caught", "opts": {"sessions": 600},
        "why": "a construction that fails part-way rewinds the counter to zero: later graphs reuse ids of earlier ones",
        "edits": [(VIEW, """        # Build the actual graph from the input decay chain structure
        self._build_decay_graph()
""", """        # Build the actual graph from the input decay chain structure
        global counter
        try:
            self._build_decay_graph()
        except Exception:
            counter = iter(itertools.count())
            raise
""")],
    },
    "c15_tail_port_from_line_index": {
        "prop": "C15", "expect": "caught", "opts": {"sessions": 300},
        "why": "sub-decay edges leave the port numbered like the decay line instead of the daughter's slot",
        "edits": [(VIEW, """                            iterate_chain(_p[_k], top_node=_ref_1, link_pos=i)
""", """                            iterate_chain(_p[_k], top_node=_ref_1, link_pos=min(idm, len(_list_parts) - 1))
""")],
    },
    "c15_second_identical_daughter_not_expanded": {
        "prop": "C15", "expect": "caught", "opts": {"sessions": 300},
        "why": "only the first of two identical decaying daughters gets its sub-graph",
        "edits": [(VIEW, """                    for i, _p in enumerate(_list_parts):  # type: ignore[arg-type]
                        if not isinstance(_p, str):
                            _k = next(iter(_p.keys()))
""", """                    _done = set()
                    for i, _p in enumerate(_list_parts):  # type: ignore[arg-type]
                        if not isinstance(_p, str):
                            _k = next(iter(_p.keys()))
                            if _k in _done:
                                continue
                            _done.add(_k)
""")],
    },
    "c15_empty_row_regression": {
        "prop": "C15", "expect": "caught", "opts": {"sessions": 300},
        "why": "reverts the repair of F15",
        "edits": [(VIEW, "            for i, n in enumerate(names or [\"\"]):", "            for i, n in enumerate(names):")],
    },
    "c15_refactor_uuid_ids": {
        "prop": "C15", "expect": "pass", "opts": {"sessions": 300},
        "why": "behaviour-preserving: node ids from uuid4 instead of a counter",
        "edits": [(VIEW, "import itertools\n", "import itertools\nimport uuid\n"),
                  (VIEW, """            label = html_table_label(list_parts, bgcolor="#eef3f8")
            r = f"dec{next(counter)}\"""", """            label = html_table_label(list_parts, bgcolor="#eef3f8")
            r = f"n{uuid.uuid4().hex}\""""),
                  (VIEW, """            label = html_table_label(_list_parts, add_tags=True)
            r = f"dec{next(counter)}\"""", """            label = html_table_label(_list_parts, add_tags=True)
            r = f"n{uuid.uuid4().hex}\"""")],
    },
})

A2G = "decaylanguage/modeling/ampgen2goofit.py"
GOO = "decaylanguage/modeling/goofit.py"
ACH = "decaylanguage/modeling/amplitudechain.py"
MAIN = "decaylanguage/__main__.py"

PY_PARS_LOOP = """        for name, par in cls.pars.iterrows():
            pname = programmatic_name(name)
            if not par.fix:
                headerlist.append(
                    f'{pname} = Variable("{name}", {par.value}, {par.error} )'
                )"""

MUTANTS.update({
    # ------------------------------------------------------------------ C19
    "c19_cpp_marker_printed_not_returned": {
        "prop": "C19", "expect": "caught", "opts": {"files": 3},
        "why": "one printer call of the C++ converter turned back into print",
        "edits": [(A2G, '    printer("\\n*/\\n\\n    // Intro")\n', '    print("\\n*/\\n\\n    // Intro")\n')],
    },
    "c19_py_fixedness_inverted": {
        "prop": "C19", "expect": "caught", "opts": {"files": 4},
        "why": "fixed and free parameters swapped in the Python make_pars only",
        "edits": [(GOO, PY_PARS_LOOP, PY_PARS_LOOP.replace("if not par.fix:", "if par.fix:"))],
    },
    "c19_py_intro_drops_width_vars": {
        "prop": "C19", "expect": "caught", "opts": {"files": 3},
        "why": "the Python intro no longer declares the resonance width variables",
        "edits": [(GOO, """            header += (
                "{name:15} = Variable({nameQ:21}, {particle.width:<10.8g})\\n".format(
                    name=name + "_W", nameQ='"' + name + '_W"', particle=particle
                )
            )
""", "")],
    },
    "c19_cli_generators_swapped": {
        "prop": "C19", "expect": "caught", "opts": {"files": 2},
        "why": "command line -G goofit runs the Python generator and vice versa",
        "edits": [(MAIN, """        if self.generator == "goofit":
            ampgen2goofit(filename)
        if self.generator == "goofitpy":
            ampgen2goofitpy(filename)""", """        if self.generator == "goofit":
            ampgen2goofitpy(filename)
        if self.generator == "goofitpy":
            ampgen2goofit(filename)""")],
    },
    "c19_py_L_off_by_one_for_gspline": {
        "prop": "C19", "expect": "caught", "opts": {"files": 12},
        "why": "orbital momentum of GSpline lineshapes off by one in the Python output only",
        "edits": [(GOO, """            return f\"\"\"Lineshapes.GSpline("{name}", {par}_M, {par}_W, {L}, {masses}, FF.BL2,""",
                   """            return f\"\"\"Lineshapes.GSpline("{name}", {par}_M, {par}_W, {L + 1}, {masses}, FF.BL2,""")],
    },
    "c19_py_permutations_reversed": {
        "prop": "C19", "expect": "caught", "opts": {"files": 3},
        "why": "permutation list reversed in the Python spin factors only",
        "edits": [(GOO, """        intro = "spin_factor_list.append((\\n"
        factor = []
        for structure in self.list_structure(final_states):""", """        intro = "spin_factor_list.append((\\n"
        factor = []
        for structure in reversed(self.list_structure(final_states)):""")],
    },
    "c19_cpp_arrays_before_variables": {
        "prop": "C19", "expect": "caught", "opts": {"files": 6},
        "why": "C++ parameter arrays are emitted before the variables they list",
        "edits": [(GOO, """            header += "\\n    }};\\n"

        return "\\n".join(headerlist) + "\\n" + header

    def make_lineshape(self, structure, masses):
        \"\"\"
        Write out the line shapes. Each kind of line shape is treated separately.
        \"\"\"
        name = self.name
        par = self.particle.programmatic_name
        a = structure[0] + 1
        b = structure[1] + 1
        # order assignment
        if a > b:
            a, b = b, a
        L = self.L
""", """            header += "\\n    }};\\n"

        return header + "\\n" + "\\n".join(headerlist) + "\\n"

    def make_lineshape(self, structure, masses):
        \"\"\"
        Write out the line shapes. Each kind of line shape is treated separately.
        \"\"\"
        name = self.name
        par = self.particle.programmatic_name
        a = structure[0] + 1
        b = structure[1] + 1
        # order assignment
        if a > b:
            a, b = b, a
        L = self.L
""")],
    },
    "c19_stdout_bound_at_import": {
        "prop": "C19", "expect": "caught", "opts": {"files": 2},
        "why": "the printing path writes to the stdout object seen at import time, not the one in force at the call",
        "edits": [(A2G, "import datetime\n", "import datetime\nimport sys\n\n_STDOUT = sys.stdout\n"),
                  (A2G, """        printer = partial(print, file=output)
    else:
        printer = print

    lines, all_states = GooFitChain.read_ampgen(str(filename))""", """        printer = partial(print, file=output)
    else:
        printer = partial(print, file=_STDOUT)

    lines, all_states = GooFitChain.read_ampgen(str(filename))""")],
    },
    "c19_kmatrix_pole_flag_differs": {
        "prop": "C19", "expect": "caught", "opts": {"files": 8},
        "why": "the Python output decides the kMatrix pole flag from a different word than the C++ output",
        "edits": [(GOO, """            is_pole = "True" if poleprod == "pole" else "False\"""", """            is_pole = "True" if poleprod == "prod" else "False\"""")],
    },
    "c19_refactor_clock_import_and_padding": {
        "prop": "C19", "expect": "pass", "opts": {"files": 4},
        "why": "behaviour-preserving: `from datetime import datetime` (bypasses the module-attribute clock seam), different column padding, resonance variables declared in sorted order",
        "edits": [(A2G, "import datetime\n", "from datetime import datetime as _dt\n"),
                  (A2G, '    printer("Generated on ", datetime.datetime.now())\n\n    printer("\\n")\n    for seen_factor in {p.spindetails() for p in lines}:\n        my_lines = [p for p in lines if p.spindetails() == seen_factor]\n        printer(colors.bold | seen_factor, ":", *my_lines[0].spinfactors)\n        for line in my_lines:\n            printer(" ", colors.blue | str(line))\n\n    printer("\\n")\n    for spintype in SpinType:\n        ps = [\n            format(str(p), "11")\n            for p in sorted(GooFitChain.all_particles)',
                   '    printer("Generated on ", _dt.now())\n\n    printer("\\n")\n    for seen_factor in {p.spindetails() for p in lines}:\n        my_lines = [p for p in lines if p.spindetails() == seen_factor]\n        printer(colors.bold | seen_factor, ":", *my_lines[0].spinfactors)\n        for line in my_lines:\n            printer(" ", colors.blue | str(line))\n\n    printer("\\n")\n    for spintype in SpinType:\n        ps = [\n            format(str(p), "11")\n            for p in sorted(GooFitChain.all_particles)'),
                  (A2G, '    printer("Generated on ", datetime.datetime.now())\n', '    printer("Generated on ", _dt.now())\n'),
                  (GOO, """        for particle in cls.all_particles - final_particles:
            name = particle.programmatic_name
            header += "    Variable {name:15} {{ {nameQ:21}, {particle.mass:<10.8g} }};\\n".format(""",
                   """        for particle in sorted(cls.all_particles - final_particles):
            name = particle.programmatic_name
            header += "    Variable {name:22} {{ {nameQ:28}, {particle.mass:<10.8g} }};\\n".format(""")],
    },
    # ------------------------------------------------------------------ C20
    "c20_particles_never_reset": {
        "prop": "C20", "expect": "caught", "opts": {"histories": 16},
        "why": "reverts the repair of F8",
        "edits": [(ACH, """        cls.all_particles = set()
        cls.final_particles = set()
""", "")],
    },
    "c20_pars_merged_with_previous_read": {
        "prop": "C20", "expect": "caught", "opts": {"histories": 16},
        "why": "the parameter table of a read is appended to the one of the previous read of that class",
        "edits": [(GOO, """        (
            line_arr,
            GooFitChain.pars,
            GooFitChain.consts,
            all_states,
        ) = super().read_ampgen(*args, **kargs)
        return line_arr, all_states""", """        previous = GooFitChain.pars
        (
            line_arr,
            GooFitChain.pars,
            GooFitChain.consts,
            all_states,
        ) = super().read_ampgen(*args, **kargs)
        if previous is not None:
            extra = previous[~previous.index.isin(GooFitChain.pars.index)]
            GooFitChain.pars = pd.concat([GooFitChain.pars, extra])
        return line_arr, all_states""")],
    },
    "c20_cache_by_file_name": {
        "prop": "C20", "expect": "caught", "opts": {"histories": 24},
        "why": "option text cached by file name: a file rewritten between two reads is served stale",
        "edits": [(ACH, """            with open(filename, encoding="utf_8") as f:
                text = f.read()""", """            if filename not in _TEXT_CACHE:
                with open(filename, encoding="utf_8") as f:
                    _TEXT_CACHE[filename] = f.read()
            text = _TEXT_CACHE[filename]"""), (ACH, "class LS(Enum):", "_TEXT_CACHE: dict = {}\n\n\nclass LS(Enum):")],
    },
    "c20_special_table_loaded_on_second_read": {
        "prop": "C20", "expect": "caught", "opts": {"histories": 16},
        "why": "the special-particle table is loaded by the second read of a process instead of the first",
        "edits": [(ACH, """        if 998100 not in getattr(Particle, getall)():""", """        if _READS[0] >= 2 and 998100 not in getattr(Particle, getall)():"""),
                  (ACH, """        cls.all_particles = set()
        cls.final_particles = set()
""", """        cls.all_particles = set()
        cls.final_particles = set()
        _READS[0] += 1
"""), (ACH, "class LS(Enum):", "_READS = [0]\n\n\nclass LS(Enum):")],
    },
    "c20_spline_array_in_set_order": {
        "prop": "C20", "expect": "caught", "opts": {"histories": 10},
        "why": "spline array elements emitted in the iteration order of a set of names (depends on the hash seed, inside one declaration unit)",
        "edits": [(GOO, """        def strip_pararray(pars, begin, convert=lambda x: x):
            mysplines = pars.index[pars.index.str.contains(begin, regex=False)]
            vals = convert(mysplines.str.slice(len(begin))).astype(int)
            series = pd.Series(mysplines, vals).sort_index()
            return ",\\n".join(series.map(lambda x: "        " + programmatic_name(x)))

        if not GooFitChain.consts.empty:""", """        def strip_pararray(pars, begin, convert=lambda x: x):
            mysplines = pars.index[pars.index.str.contains(begin, regex=False)]
            return ",\\n".join("        " + programmatic_name(x) for x in set(mysplines))

        if not GooFitChain.consts.empty:""")],
    },
    "c20_py_reader_stores_into_cpp_class": {
        "prop": "C20", "expect": "caught", "opts": {"histories": 24},
        "why": "copy-paste slip: GooFitPyChain.read_ampgen stores its tables on GooFitChain",
        "edits": [(GOO, """        (
            line_arr,
            GooFitPyChain.pars,
            GooFitPyChain.consts,
            all_states,
        ) = super().read_ampgen(*args, **kargs)""", """        (
            line_arr,
            GooFitChain.pars,
            GooFitChain.consts,
            all_states,
        ) = super().read_ampgen(*args, **kargs)
        if GooFitPyChain.pars is None:
            GooFitPyChain.pars, GooFitPyChain.consts = GooFitChain.pars, GooFitChain.consts""")],
    },
    "c20_refactor_sorted_declarations": {
        "prop": "C20", "expect": "pass", "opts": {"histories": 12},
        "why": "behaviour-preserving: independent constexpr/Variable declarations emitted in sorted instead of set order",
        "edits": [(GOO, """        for particle in final_particles:
            name = particle.programmatic_name.upper()
            header += f"    constexpr fptype {name:8} {{ {particle.mass:<14.8g} }};\\n\"""", """        for particle in sorted(final_particles):
            name = particle.programmatic_name.upper()
            header += f"    constexpr fptype {name:8} {{ {particle.mass:<14.8g} }};\\n\""""),
                  (GOO, """        for particle in cls.all_particles - final_particles:
            name = particle.programmatic_name
            header += "    Variable {name:15} {{ {nameQ:21}, {particle.mass:<10.8g} }};\\n".format(""",
                   """        for particle in sorted(cls.all_particles - final_particles, reverse=True):
            name = particle.programmatic_name
            header += "    Variable {name:15} {{ {nameQ:21}, {particle.mass:<10.8g} }};\\n".format(""")],
    },
})

MUTANTS.update({
    "c02_refactor_os_path_resolve_stat": {
        "prop": "C02", "expect": "pass", "opts": {"gen_runs": 64, "fault_runs": 48, "file_deliveries": 0},
        "why": "behaviour-preserving: existence test through os.path.isfile on the resolved path and a stat() call before opening",
        "edits": [(DEC, """                if not filename.is_file():
                    raise FileNotFoundError(f"{str(filename)!r}!")
""", """                if not os.path.isfile(os.fspath(filename.resolve())) or filename.stat().st_size < 0:
                    raise FileNotFoundError(f"{str(filename)!r}!")
""")],
    },
})

MUTANTS.update({
    "c02_refactor_read_whole_file_split_newline": {
        "prop": "C02", "expect": "pass", "opts": {"gen_runs": 96, "fault_runs": 48, "file_deliveries": 0},
        "why": "behaviour-preserving: file read in one piece with builtin open() and cut at '\\n' only",
        "edits": [(DEC, """                with filename.open(encoding="utf_8_sig") as file:
                    for line in file:""", """                with open(filename, encoding="utf_8_sig") as file:
                    for line in [x + "\\n" for x in file.read().split("\\n")]:""")],
    },
})
