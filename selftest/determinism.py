#!/venv/bin/python
"""Determinism self-test: the same VERIF_SEED must give the same event-log
digest whatever the number of workers, on repetition, and (for the engines in
which the hash seed is not a world parameter) whatever PYTHONHASHSEED the
simulated interpreters run under.

Each configuration is a full run of ./check with a reduced budget, its
evidence redirected to a scratch directory; the coverage.log_digest values
(a digest over the per-run event logs, in run-index order) are compared.

usage: selftest/determinism.py [--prop C14,...] [--seeds 0,1,2]
"""

from __future__ import annotations

import argparse
import json
import os
import shutil
import subprocess
import sys
import tempfile

VERIF = os.path.dirname(os.path.dirname(os.path.abspath(__file__)))

BUDGETS = {
    "C14": ["--opt", "programs=60000"],
    "C02": ["--opt", "gen_runs=96", "--opt", "fault_runs=32", "--opt", "file_deliveries=5"],
    "C08": ["--opt", "sessions=160", "--opt", "file_sessions=0"],
    "C15": ["--opt", "sessions=400"],
    "C19": ["--opt", "files=4"],
    "C20": ["--opt", "histories=10"],
}
# (label, env overrides, which digest key must agree with the baseline)
CONFIGS = [
    ("workers=16", {"VERIF_WORKERS": "16"}, "log_digest"),
    ("workers=16 again", {"VERIF_WORKERS": "16"}, "log_digest"),
    ("workers=3", {"VERIF_WORKERS": "3"}, "log_digest"),
    ("zygote PYTHONHASHSEED=1", {"VERIF_WORKERS": "16", "VERIF_ZYGOTE_HASHSEED": "1"}, "log_digest_x"),
    ("zygote PYTHONHASHSEED=4242", {"VERIF_WORKERS": "8", "VERIF_ZYGOTE_HASHSEED": "4242"}, "log_digest_x"),
]


def run(prop, seed, env_over):
    d = tempfile.mkdtemp(prefix=f"dl-verif-det-{prop}-", dir="/var/tmp")
    try:
        env = dict(os.environ, VERIF_SEED=str(seed), VERIF_OUT_DIR=d, **env_over)
        p = subprocess.run([os.path.join(VERIF, "check"), prop, "--tier", "quick", *BUDGETS[prop]], env=env, cwd=VERIF,
                           capture_output=True, text=True, timeout=3600)
        with open(os.path.join(d, "evidence", f"{prop}.json"), encoding="utf-8") as f:
            cov = json.load(f)["coverage"]
        return p.returncode, cov
    finally:
        shutil.rmtree(d, ignore_errors=True)


def main() -> int:
    ap = argparse.ArgumentParser()
    ap.add_argument("--prop", default="C14,C02,C08,C15,C19,C20")
    ap.add_argument("--seeds", default="0,1")
    a = ap.parse_args()
    bad = 0
    report = []
    for prop in a.prop.split(","):
        for seed in [int(s) for s in a.seeds.split(",")]:
            base = None
            for label, env_over, key in CONFIGS:
                if prop == "C20" and "HASHSEED" in label:
                    continue  # the hash seed is a world parameter there
                rc, cov = run(prop, seed, env_over)
                k = key
                if key == "log_digest_x":
                    k = "log_digest_normalised" if prop == "C19" else "log_digest"
                val = (rc, cov.get(k), cov.get("evaluations"))
                if base is None:
                    base = {"log_digest": (rc, cov.get("log_digest"), cov.get("evaluations")),
                            "log_digest_normalised": (rc, cov.get("log_digest_normalised"), cov.get("evaluations"))}
                ok = val == base[k]
                report.append({"prop": prop, "seed": seed, "config": label, "digest_key": k, "exit": rc, "digest": cov.get(k), "evaluations": cov.get("evaluations"), "ok": ok})
                print(("ok   " if ok else "DIFF ") + f"{prop} seed={seed} {label:<28} exit={rc} evaluations={cov.get('evaluations')} {k}={str(cov.get(k))[:16]}", flush=True)
                bad += 0 if ok else 1
    with open(os.path.join(VERIF, "selftest", "determinism_report.json"), "w", encoding="utf-8") as f:
        json.dump({"results": report}, f, indent=1)
    print("deterministic" if not bad else f"{bad} configuration(s) differ")
    return 0 if not bad else 1


if __name__ == "__main__":
    sys.exit(main())
