#!/venv/bin/python
"""No-false-alarm sweep on the unchanged tree: every check's quick tier under several VERIF_SEED values.
Evidence and replays go to a scratch directory.  usage: selftest/seedsweep.py [--seeds 1,2,3] [--prop C02,...]"""
import argparse
import json
import os
import shutil
import subprocess
import sys
import tempfile
import time

VERIF = os.path.dirname(os.path.dirname(os.path.abspath(__file__)))


def main():
    ap = argparse.ArgumentParser()
    ap.add_argument("--seeds", default="1,2,3,4")
    ap.add_argument("--prop", default="C14,C02,C08,C15,C19,C20")
    ap.add_argument("--tier", default="quick")
    a = ap.parse_args()
    rows = []
    bad = 0
    for prop in a.prop.split(","):
        for seed in a.seeds.split(","):
            d = tempfile.mkdtemp(prefix=f"dl-verif-sweep-{prop}-", dir="/var/tmp")
            t0 = time.monotonic()
            try:
                p = subprocess.run([os.path.join(VERIF, "check"), prop, "--tier", a.tier], cwd=VERIF, capture_output=True, text=True,
                                   env=dict(os.environ, VERIF_SEED=seed, VERIF_OUT_DIR=d), timeout=6 * 3600)
                lines = [ln for ln in p.stdout.splitlines() if ln.startswith(("VIOLATION", "KNOWN-FINDING"))]
                row = {"prop": prop, "seed": int(seed), "exit": p.returncode, "wall_s": round(time.monotonic() - t0, 1), "lines": lines,
                       "stderr_tail": p.stderr[-400:] if p.returncode else ""}
            finally:
                shutil.rmtree(d, ignore_errors=True)
            rows.append(row)
            bad += 1 if row["exit"] else 0
            print(f"{'ok  ' if not row['exit'] else 'BAD '} {prop} seed={seed} exit={row['exit']} {row['wall_s']}s {row['lines']} {row['stderr_tail'][-200:]}", flush=True)
    with open(os.path.join(VERIF, "selftest", f"seedsweep_report_{a.tier}.json"), "w") as f:
        json.dump({"results": rows}, f, indent=1)
    print("clean" if not bad else f"{bad} run(s) did not exit 0")
    return 0 if not bad else 1


if __name__ == "__main__":
    sys.exit(main())
