#!/venv/bin/python
"""Run the checks against the independently seeded breakages in /verif/seeded.

Each seeded/<id>/patch.diff (written by a sub-agent that saw only the text of
the property) is applied to a scratch copy of /repo/src under /var/tmp; the
property's check runs against the copy (VERIF_SRC_ROOT) with evidence and
replays redirected (VERIF_OUT_DIR); expected: exit 1 with a VIOLATION line.

usage: selftest/seeded.py [--only ID,...] [--jobs N] [--tier quick|thorough] [--opt k=v ...]
"""

from __future__ import annotations

import argparse
import glob
import json
import os
import shutil
import subprocess
import sys
import tempfile
import time
from concurrent.futures import ThreadPoolExecutor

VERIF = os.path.dirname(os.path.dirname(os.path.abspath(__file__)))


def run_one(sid: str, workers: int, tier: str, opts: list, as_prop: str | None = None) -> dict:
    d = os.path.join(VERIF, "seeded", sid)
    with open(os.path.join(d, "meta.json"), encoding="utf-8") as f:
        meta = json.load(f)
    prop = as_prop or meta["property"]
    scratch = tempfile.mkdtemp(prefix=f"dl-verif-seeded-{sid}-", dir="/var/tmp")
    t0 = time.monotonic()
    try:
        shutil.copytree("/repo/src", os.path.join(scratch, "src"), ignore=shutil.ignore_patterns("__pycache__"))
        p = subprocess.run(["patch", "-p1", "-s", "-i", os.path.join(d, "patch.diff")], cwd=scratch, capture_output=True, text=True)
        if p.returncode != 0:
            return {"id": sid, "prop": prop, "caught": False, "exit": None, "note": "patch does not apply: " + p.stdout[-300:] + p.stderr[-300:], "wall_s": 0}
        env = dict(os.environ, VERIF_SRC_ROOT=os.path.join(scratch, "src"), VERIF_OUT_DIR=scratch, VERIF_WORKERS=str(workers), PYTHONDONTWRITEBYTECODE="1")
        cmd = [os.path.join(VERIF, "check"), prop, "--tier", tier]
        for o in opts:
            cmd += ["--opt", o]
        p = subprocess.run(cmd, env=env, cwd=VERIF, capture_output=True, text=True, timeout=6 * 3600)
        vio = [ln for ln in p.stdout.splitlines() if ln.startswith("VIOLATION")]
        sig = ""
        if vio:
            try:
                with open(vio[0].split("replay=", 1)[1], encoding="utf-8") as f:
                    sig = json.dumps(json.load(f)["violation"]["signature"])
            except Exception:
                pass
        return {"id": sid, "prop": prop, "caught": p.returncode == 1 and bool(vio), "exit": p.returncode, "signature": sig,
                "wall_s": round(time.monotonic() - t0, 1), "note": "" if p.returncode in (0, 1) else p.stderr[-500:]}
    finally:
        shutil.rmtree(scratch, ignore_errors=True)


def main() -> int:
    ap = argparse.ArgumentParser()
    ap.add_argument("--only")
    ap.add_argument("--jobs", type=int, default=2)
    ap.add_argument("--tier", default="quick")
    ap.add_argument("--opt", action="append", default=[])
    ap.add_argument("--as-prop", help="run this property's check instead of the one named in meta.json (cross-property catches)")
    a = ap.parse_args()
    ids = sorted(os.path.basename(os.path.dirname(p)) for p in glob.glob(os.path.join(VERIF, "seeded", "*", "patch.diff")))
    if a.only:
        ids = [i for i in ids if i in a.only.split(",") or i.split("-")[0] in a.only.split(",")]
    workers = max(2, 16 // max(1, a.jobs))
    with ThreadPoolExecutor(max_workers=a.jobs) as ex:
        results = list(ex.map(lambda i: run_one(i, workers, a.tier, a.opt, a.as_prop), ids))
    for r in results:
        print(("caught " if r["caught"] else "MISSED ") + f"{r['id']:<40} exit={r['exit']} {r['wall_s']:>7}s {r.get('signature', '')} {r.get('note', '')}")
    if not a.as_prop:
        # the report describes every seeded change: partial runs replace their entries
        path = os.path.join(VERIF, "selftest", f"seeded_report_{a.tier}.json")
        merged = {}
        if os.path.exists(path):
            with open(path, encoding="utf-8") as f:
                merged = {r["id"]: r for r in json.load(f).get("results", [])}
        for r in results:
            r["budget_opts"] = a.opt
            merged[r["id"]] = r
        all_ids = sorted(os.path.basename(os.path.dirname(p)) for p in glob.glob(os.path.join(VERIF, "seeded", "*", "patch.diff")))
        with open(path, "w", encoding="utf-8") as f:
            json.dump({"results": [merged[i] for i in all_ids if i in merged], "not_yet_run": [i for i in all_ids if i not in merged]}, f, indent=1)
    print(f"{sum(r['caught'] for r in results)}/{len(results)} caught")
    return 0


if __name__ == "__main__":
    sys.exit(main())
