#!/venv/bin/python
"""Confirm a candidate seeded change delivered by a sub-agent, then file it under /verif/seeded/<PROP>-<name>/.

In the given scratch worktree of /repo (never /repo itself): demo exits 0 on the clean tree, 1 with the patch;
the pinned test suite with the patch has exactly the baseline's two failures and no fewer passes.

usage: selftest/confirm.py <worktree> <candidate-dir> [...]
"""
import json
import os
import re
import shutil
import subprocess
import sys

VERIF = os.path.dirname(os.path.dirname(os.path.abspath(__file__)))
BASE_FAIL = {"tests/dec/test_dec.py::test_particle_property_definitions", "tests/test_convert.py::test_full_convert"}


def sh(cmd, cwd, env=None, timeout=1800):
    return subprocess.run(cmd, cwd=cwd, env=env, capture_output=True, text=True, timeout=timeout)


def confirm(wt: str, cand: str) -> dict:
    env = dict(os.environ, PYTHONPATH=os.path.join(wt, "src"), PYTHONDONTWRITEBYTECODE="1")
    patch, demo = os.path.join(cand, "patch.diff"), os.path.join(cand, "demo.py")
    out = {"worktree": wt}
    sh(["git", "checkout", "--", "."], wt)
    sh(["git", "clean", "-fdq", "src"], wt)
    out["demo_exit_on_clean_tree"] = sh(["/venv/bin/python", demo], cand, env, 900).returncode
    a = sh(["git", "apply", patch], wt)
    if a.returncode:
        out["error"] = "patch does not apply: " + a.stderr[-300:]
        return out
    try:
        d = sh(["/venv/bin/python", demo], cand, env, 900)
        out["demo_exit_with_patch"] = d.returncode
        out["demo_tail_with_patch"] = (d.stderr or d.stdout).strip().splitlines()[-1:][0][:300] if (d.stderr or d.stdout).strip() else ""
        t = sh(["/venv/bin/python", "-m", "pytest", "-q", "-p", "no:cacheprovider", "--timeout=900", "--continue-on-collection-errors", "-rf"], wt, env, 3000)
        tail = t.stdout.strip().splitlines()
        out["test_suite_with_patch"] = tail[-1] if tail else ""
        failed = {ln.split(" ", 1)[1].split(" - ")[0] for ln in tail if ln.startswith("FAILED ")}
        m = re.search(r"(\d+) passed", out["test_suite_with_patch"])
        out["suite_same_as_baseline"] = failed == BASE_FAIL and bool(m) and int(m.group(1)) >= 282
        out["failed_tests"] = sorted(failed)
    finally:
        sh(["git", "checkout", "--", "."], wt)
        sh(["git", "clean", "-fdq", "src"], wt)
    out["ok"] = out["demo_exit_on_clean_tree"] == 0 and out.get("demo_exit_with_patch") == 1 and out.get("suite_same_as_baseline", False)
    return out


def main() -> int:
    wt = sys.argv[1]
    for cand in sys.argv[2:]:
        cand = cand.rstrip("/")
        with open(os.path.join(cand, "meta.json"), encoding="utf-8") as f:
            meta = json.load(f)
        res = confirm(wt, cand)
        sid = f"{meta['property']}-{meta['name']}"
        print(("CONFIRMED " if res.get("ok") else "REJECTED  ") + sid, json.dumps(res), flush=True)
        if res.get("ok"):
            dst = os.path.join(VERIF, "seeded", sid)
            os.makedirs(dst, exist_ok=True)
            for fn in ("patch.diff", "demo.py"):
                shutil.copy(os.path.join(cand, fn), os.path.join(dst, fn))
            meta["confirmed_by_verifier"] = res
            meta["round"] = 5
            with open(os.path.join(dst, "meta.json"), "w", encoding="utf-8") as f:
                json.dump(meta, f, indent=1)
    return 0


if __name__ == "__main__":
    sys.exit(main())
