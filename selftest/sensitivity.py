#!/venv/bin/python
"""Sensitivity / no-false-alarm self-test.

For every entry of selftest/mutants.py: copy /repo/src to a scratch directory
under /var/tmp, apply the edits, run the property's check against the scratch
copy (VERIF_SRC_ROOT) with its evidence and replays redirected to the scratch
directory (VERIF_OUT_DIR), compare the exit status with the expectation, and
remove the scratch directory.  /repo is never touched.

usage: selftest/sensitivity.py [--only NAME[,NAME...]] [--prop C14] [--jobs N] [--keep]
exit 0 iff every mutant marked 'caught' made its check exit 1 with a VIOLATION
line and every 'pass' entry made it exit 0.
"""

from __future__ import annotations

import argparse
import json
import os
import shutil
import subprocess
import sys
import tempfile
import time
from concurrent.futures import ThreadPoolExecutor

HERE = os.path.dirname(os.path.abspath(__file__))
VERIF = os.path.dirname(HERE)
sys.path.insert(0, VERIF)

from selftest.mutants import MUTANTS  # noqa: E402


def apply_edits(root: str, edits) -> None:
    for rel, old, new in edits:
        path = os.path.join(root, rel)
        with open(path, encoding="utf-8") as f:
            s = f.read()
        if s.count(old) != 1:
            raise RuntimeError(f"{rel}: expected exactly one occurrence of the text to replace, found {s.count(old)}: {old[:60]!r}")
        with open(path, "w", encoding="utf-8") as f:
            f.write(s.replace(old, new))


def run_one(name: str, spec: dict, workers: int, keep: bool) -> dict:
    scratch = tempfile.mkdtemp(prefix=f"dl-verif-{name}-", dir="/var/tmp")
    t0 = time.monotonic()
    try:
        shutil.copytree("/repo/src", os.path.join(scratch, "src"), ignore=shutil.ignore_patterns("__pycache__"))
        apply_edits(os.path.join(scratch, "src"), spec["edits"])
        # the mutant must at least import
        env = dict(os.environ, VERIF_SRC_ROOT=os.path.join(scratch, "src"), VERIF_OUT_DIR=scratch, VERIF_WORKERS=str(workers),
                   PYTHONDONTWRITEBYTECODE="1")
        cmd = [os.path.join(VERIF, "check"), spec["prop"], "--tier", "quick"]
        for k, v in (spec.get("opts") or {}).items():
            cmd += ["--opt", f"{k}={v}"]
        p = subprocess.run(cmd, env=env, cwd=VERIF, capture_output=True, text=True, timeout=1800)
        violation_lines = [ln for ln in p.stdout.splitlines() if ln.startswith("VIOLATION")]
        detail = ""
        if violation_lines:
            path = violation_lines[0].split("replay=", 1)[1]
            try:
                with open(path, encoding="utf-8") as f:
                    body = json.load(f)
                detail = json.dumps(body["violation"]["signature"])
            except Exception:
                pass
        want = spec["expect"]
        if want == "caught":
            ok = p.returncode == 1 and bool(violation_lines)
        else:
            ok = p.returncode == 0 and not violation_lines
        return {"name": name, "prop": spec["prop"], "expect": want, "exit": p.returncode, "ok": ok, "signature": detail,
                "wall_s": round(time.monotonic() - t0, 1), "stderr_tail": p.stderr[-600:] if not ok else ""}
    except Exception as e:
        return {"name": name, "prop": spec["prop"], "expect": spec["expect"], "exit": None, "ok": False, "signature": "",
                "wall_s": round(time.monotonic() - t0, 1), "stderr_tail": f"{type(e).__name__}: {e}"}
    finally:
        if not keep:
            shutil.rmtree(scratch, ignore_errors=True)


def main() -> int:
    ap = argparse.ArgumentParser()
    ap.add_argument("--only")
    ap.add_argument("--prop")
    ap.add_argument("--jobs", type=int, default=2)
    ap.add_argument("--keep", action="store_true")
    ap.add_argument("--out", default=os.path.join(VERIF, "selftest", "sensitivity_report.json"))
    a = ap.parse_args()
    names = sorted(MUTANTS)
    if a.only:
        names = [n for n in names if n in a.only.split(",")]
    if a.prop:
        names = [n for n in names if MUTANTS[n]["prop"] == a.prop.upper()]
    workers = max(2, 16 // max(1, a.jobs))
    with ThreadPoolExecutor(max_workers=a.jobs) as ex:
        results = list(ex.map(lambda n: run_one(n, MUTANTS[n], workers, a.keep), names))
    bad = [r for r in results if not r["ok"]]
    for r in results:
        flag = "ok  " if r["ok"] else "FAIL"
        print(f"{flag} {r['name']:<44} expect={r['expect']:<6} exit={r['exit']} {r['wall_s']:>6}s {r['signature']}")
        if not r["ok"]:
            print("     " + r["stderr_tail"].replace("\n", "\n     "))
    # the report always describes the whole current catalogue: partial runs replace their entries, stale names are dropped
    merged = {}
    if os.path.exists(a.out):
        with open(a.out, encoding="utf-8") as f:
            merged = {r["name"]: r for r in json.load(f).get("results", [])}
    for r in results:
        merged[r["name"]] = {k: v for k, v in r.items() if k != "stderr_tail"}
    with open(a.out, "w", encoding="utf-8") as f:
        json.dump({"results": [merged[n] for n in sorted(merged) if n in MUTANTS],
                   "not_yet_run": sorted(n for n in MUTANTS if n not in merged)}, f, indent=1)
    print(f"{len(results) - len(bad)}/{len(results)} as expected")
    return 0 if not bad else 1


if __name__ == "__main__":
    sys.exit(main())
