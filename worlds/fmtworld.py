"""Format world (C14): the simulated party is the *caller* of DescriptorFormat.

A seeded generator writes a small program over the statement alphabet below;
an interpreter executes it with real Python `with`, `try` and `raise`
statements against the real DescriptorFormat / DecayChain.to_string, while a
stack model of "the format in force" and an independent reference renderer
predict every observable after every statement.

Program := [Stmt, ...]
Stmt    := ["new", i, top, sub]          ctx_i = DescriptorFormat(top, sub)
         | ["with", i, Block]            with ctx_i: Block       (i may already be active)
         | ["with_new", top, sub, Block] with DescriptorFormat(top, sub): Block
         | ["set", top, sub]             DescriptorFormat.set_config(top, sub)
         | ["render", c]                 chain_c.to_string()
         | ["raise"]                     raise SimFault
         | ["try", Block]                try: Block / except (SimFault, Exception): pass
         | ["render_fault", c, k]        chain_c.to_string() with SimFault at its k-th line event
"""

from __future__ import annotations

import hashlib
import json
import random

from simkit.inject import Injector, SimFault

DEFAULT = ["{mother} -> {daughters}", "({mother} -> {daughters})"]

VALID = [
    "{mother} -> {daughters}",
    "({mother} -> {daughters})",
    "{mother} --> {daughters}",
    "[{mother} --> {daughters}]",
    "{mother} => {daughters}",
    "{mother} (=> {daughters})",
    "{{{mother}}} to <{daughters}>",
    "{daughters} <- {mother}",
    "{mother}: {daughters} /{mother}",
    "{mother!s} ~> {daughters:s}",
    "<{mother} {daughters}>",
]
INVALID = [
    "{mother} -> ",
    "-> {daughters}",
    "{mother} -> {daughters} {extra}",
    "{} -> {daughters}",
    "{0} -> {daughters}",
    "{mother} -> {daughters} {}",
    "no placeholders",
    "",
    "{mom} -> {daughters}",
]


def is_valid(p: str) -> bool:
    return p in VALID


# ------------------------------------------------------------------ chains
# Static descriptions; the reference renderer works on these trees, never on
# anything the library computed.
CHAINS = [
    # flat
    ("D0", [(1.0, "D0", ["K-", "pi+"])]),
    # nested, three levels
    (
        "D*+",
        [
            (0.677, "D*+", ["D0", "pi+"]),
            (0.0124, "D0", ["K_S0", "pi0"]),
            (0.692, "K_S0", ["pi+", "pi-"]),
            (0.98823, "pi0", ["gamma", "gamma"]),
        ],
    ),
    # repeated decaying daughter, names with parentheses, quotes and signs
    (
        "Upsilon(4S)",
        [
            (0.5, "Upsilon(4S)", ["K_1(1270)+", "K_1(1270)+", "f'_0", "anti-K*0"]),
            (0.3, "K_1(1270)+", ["K+", "rho0"]),
            (0.9, "rho0", ["pi+", "pi-"]),
            (0.6, "anti-K*0", ["K-", "pi+"]),
        ],
    ),
]


def _tree(ci: int):
    mother, modes = CHAINS[ci]
    table = {m: ds for _, m, ds in modes}

    def build(name):
        return (name, [build(d) if d in table else d for d in table[name]])

    return build(mother)


def reference_render(ci: int, fmt) -> str:
    """tree -> string: daughters rendered, then sorted as strings, first
    pattern at the top level and second pattern below."""

    def rec(node, top):
        name, kids = node
        parts = sorted(k if isinstance(k, str) else rec(k, False) for k in kids)
        pat = fmt[0] if top else fmt[1]
        return pat.format(mother=name, daughters=" ".join(parts))

    return rec(_tree(ci), True)


_real_chains = None


def real_chains():
    global _real_chains
    if _real_chains is None:
        from decaylanguage import DecayChain, DecayMode

        out = []
        for mother, modes in CHAINS:
            out.append(DecayChain(mother, {m: DecayMode(bf, list(ds)) for bf, m, ds in modes}))
        _real_chains = out
    return _real_chains


# ------------------------------------------------------------------ generator
KINDS = ["new", "with", "with_new", "set", "render", "raise", "try", "render_fault"]


def _pattern_pair(rng: random.Random, p_invalid: float):
    if rng.random() < p_invalid:
        which = rng.randrange(3)
        top = rng.choice(INVALID) if which in (0, 2) else rng.choice(VALID)
        sub = rng.choice(INVALID) if which in (1, 2) else rng.choice(VALID)
        return top, sub
    return rng.choice(VALID), rng.choice(VALID)


def generate(rng: random.Random, cfg: dict | None = None) -> list:
    cfg = cfg or {}
    max_stmts = cfg.get("max_stmts", 30)
    max_depth = cfg.get("max_depth", 6)
    n_ctx = rng.randint(1, cfg.get("max_ctx", 4))
    # swarm: per-program statement weights, some kinds switched off
    weights = {k: rng.choice([0, 1, 1, 2, 3]) for k in KINDS}
    weights["render"] = max(weights["render"], 1)
    if rng.random() < 0.8:
        weights["with"] = max(weights["with"], 2)
        weights["new"] = max(weights["new"], 1)
    p_invalid = rng.choice([0.0, 0.1, 0.3])
    budget = [rng.randint(2, max_stmts)]
    created: set = set()

    def block(depth):
        out = []
        n = rng.randint(1, 5)
        for _ in range(n):
            if budget[0] <= 0:
                break
            budget[0] -= 1
            kinds = [k for k in KINDS if weights[k] > 0]
            if depth >= max_depth:
                kinds = [k for k in kinds if k not in ("with", "with_new", "try")]
            k = rng.choices(kinds, [weights[x] for x in kinds])[0]
            if k == "with" and not created:
                k = "new"
            if k == "new":
                i = rng.randrange(n_ctx)
                created.add(i)
                out.append(["new", i, *_pattern_pair(rng, p_invalid)])
            elif k == "with":
                out.append(["with", rng.choice(sorted(created)), block(depth + 1)])
            elif k == "with_new":
                out.append(["with_new", *_pattern_pair(rng, p_invalid), block(depth + 1)])
            elif k == "set":
                out.append(["set", *_pattern_pair(rng, p_invalid)])
            elif k == "render":
                out.append(["render", rng.randrange(len(CHAINS))])
            elif k == "raise":
                out.append(["raise"])
            elif k == "try":
                out.append(["try", block(depth + 1)])
            elif k == "render_fault":
                out.append(["render_fault", rng.randrange(len(CHAINS)), rng.randint(1, 60)])
        return out

    return block(0)


# ------------------------------------------------------------------ interpreter + model
class Violation(BaseException):
    """Raised at the first disagreement between the real system and the model.  It travels up through the program's real
    `with` blocks, whose __exit__ may itself raise and thereby replace it; the first one is therefore also remembered
    (FIRST) and reported whatever exception finally arrives at the top."""

    FIRST: list = []

    def __init__(self, check, detail, step):
        super().__init__(check, detail, step)
        self.check = check
        self.detail = detail
        self.step = step
        if not Violation.FIRST:
            Violation.FIRST.append(self)


class Interp:
    def __init__(self):
        from decaylanguage.utils import DescriptorFormat

        self.DF = DescriptorFormat
        self.ctx: dict = {}
        self.ctx_fmt: dict = {}
        self.force = list(DEFAULT)
        self.stack: list = []
        self.step = 0
        self.trace: list = []  # abstract events (kind, depth, outcome)
        self.faults = {
            "exceptional_exit": 0,
            "unwind_ge2": 0,
            "invalid_enter": 0,
            "invalid_set": 0,
            "invalid_set_in_body": 0,
            "reentrant_enter": 0,
            "reuse_other_force": 0,
            "render_fault_fired": 0,
            "render_fault_not_reached": 0,
        }
        self.renders = 0
        self.active: list = []
        self.entered_under: dict = {}
        self._unwinding = 0

    # --- observation of the real system
    def real_config(self):
        c = self.DF.config
        return [c.get("decay_pattern"), c.get("sub_decay_pattern")]

    def check_config(self, where):
        rc = self.real_config()
        if rc != self.force:
            raise Violation("config_equals_model", {"where": where, "real": rc, "model": list(self.force)}, self.step)

    def ev(self, kind, outcome):
        self.trace.append((kind, len(self.stack), outcome))

    # --- statements
    def run_block(self, block):
        for st in block:
            self.step += 1
            self.exec_stmt(st)
            self.check_config("after_" + st[0])

    def _enter(self, ctx, fmt, body, kind, ident):
        valid = is_valid(fmt[0]) and is_valid(fmt[1])
        entered = False
        try:
            with ctx:
                entered = True
                if not valid:
                    raise Violation("invalid_pattern_accepted", {"at": "enter", "fmt": fmt}, self.step)
                if ident is not None:
                    if ident in self.active:
                        self.faults["reentrant_enter"] += 1
                    prev = self.entered_under.get(ident)
                    if prev is not None and prev != self.force:
                        self.faults["reuse_other_force"] += 1
                    self.entered_under[ident] = list(self.force)
                self.stack.append(list(self.force))
                self.active.append(ident)
                self.force = list(fmt)
                self.ev(kind, "entered")
                self.check_config("after_enter")
                self.run_block(body)
        except Violation:
            raise
        except BaseException as e:
            if entered:
                self.force = self.stack.pop()
                self.active.pop()
                self.faults["exceptional_exit"] += 1
                self._unwinding += 1
                if self._unwinding == 2:
                    self.faults["unwind_ge2"] += 1
                self.ev(kind, "exit_exc")
                self.check_config("after_exceptional_exit")
            else:
                if valid:
                    raise Violation(
                        "valid_pattern_rejected", {"at": "enter", "fmt": fmt, "exc": repr(e)}, self.step
                    ) from None
                if isinstance(e, SimFault):
                    raise
                self.faults["invalid_enter"] += 1
                self.ev(kind, "rejected")
                self.check_config("after_rejected_enter")
            raise
        else:
            self.force = self.stack.pop()
            self.active.pop()
            self.ev(kind, "exit_ok")
            self.check_config("after_normal_exit")

    def render(self, c):
        got = real_chains()[c].to_string()
        want = reference_render(c, self.force)
        self.renders += 1
        if got != want:
            raise Violation("render_equals_reference", {"chain": c, "got": got, "want": want, "force": list(self.force)}, self.step)

    def exec_stmt(self, st):
        k = st[0]
        if k == "new":
            _, i, top, sub = st
            self.ctx[i] = self.DF(top, sub)
            self.ctx_fmt[i] = [top, sub]
            self.entered_under.pop(i, None)
            self.ev(k, "ok")
        elif k == "with":
            _, i, body = st
            if i not in self.ctx:  # shrunk programs may have lost the 'new'
                self.ev(k, "skipped")
                return
            self._enter(self.ctx[i], self.ctx_fmt[i], body, k, i)
        elif k == "with_new":
            _, top, sub, body = st
            self._enter(self.DF(top, sub), [top, sub], body, k, None)
        elif k == "set":
            _, top, sub = st
            valid = is_valid(top) and is_valid(sub)
            try:
                self.DF.set_config(top, sub)
            except Exception as e:
                if valid:
                    raise Violation("valid_pattern_rejected", {"at": "set", "fmt": [top, sub], "exc": repr(e)}, self.step) from None
                self.faults["invalid_set"] += 1
                if self.stack:
                    self.faults["invalid_set_in_body"] += 1
                self.ev(k, "rejected")
                self.check_config("after_rejected_set")
                raise
            if not valid:
                raise Violation("invalid_pattern_accepted", {"at": "set", "fmt": [top, sub]}, self.step)
            self.force = [top, sub]
            self.ev(k, "ok")
        elif k == "render":
            self.render(st[1])
            self.ev(k, "ok")
        elif k == "raise":
            self.ev(k, "raised")
            raise SimFault("program raise")
        elif k == "try":
            try:
                self.run_block(st[1])
                self.ev(k, "no_exc")
            except Violation:
                raise
            except (SimFault, Exception):
                self._unwinding = 0
                self.ev(k, "caught")
        elif k == "render_fault":
            _, c, kk = st
            inj = Injector(kk)
            try:
                got = inj.run(real_chains()[c].to_string)
            except SimFault:
                self.faults["render_fault_fired"] += 1
                self.ev(k, "fired")
                self.check_config("after_render_fault")
                # rendering again right away must be unaffected by the aborted call
                self.render(c)
                raise
            self.faults["render_fault_not_reached"] += 1
            want = reference_render(c, self.force)
            if got != want:
                raise Violation("render_equals_reference", {"chain": c, "got": got, "want": want, "force": list(self.force)}, self.step)
            self.ev(k, "completed")
        elif k == "thread":
            self.ev(k, "marker")  # only meaningful as the first statement of a program (see execute_program)
        else:
            raise RuntimeError(f"unknown statement {st!r}")


def execute_program(prog: list) -> dict:
    """Run one program from the pristine precondition; returns verdict.  A leading ["thread"] marker makes a worker
    thread (started and joined) the caller of the whole program."""
    if prog and prog[0] == ["thread"]:
        import threading

        box = {}
        t = threading.Thread(target=lambda: box.update(res=_execute_program(prog[1:])), name="sim-caller")
        t.start()
        t.join()
        if "res" not in box:
            raise RuntimeError("worker thread died without a result")
        return box["res"]
    return _execute_program(prog)


def _execute_program(prog: list) -> dict:
    from decaylanguage.utils import DescriptorFormat

    it = Interp()
    out = {"verdict": "ok"}
    Violation.FIRST.clear()
    try:
        if it.real_config() != DEFAULT:
            raise Violation("pristine_precondition", {"real": it.real_config()}, 0)
        try:
            it.run_block(prog)
        except Violation:
            raise
        except (SimFault, Exception):
            it.ev("top", "caught")
        if Violation.FIRST:
            raise Violation.FIRST[0]  # it was replaced on its way up by an exception raised in some __exit__
        if it.stack:
            raise RuntimeError("interpreter stack not empty")
        it.check_config("end_of_program")
        # every chain renders according to the model at the very end too
        for c in range(len(CHAINS)):
            it.render(c)
    except Violation as v:
        out = {"verdict": "violation", "signature": {"check": v.check}, "detail": v.detail, "step": v.step}
    finally:
        # harness action: back to the pristine precondition for the next program
        DescriptorFormat.config = {"decay_pattern": DEFAULT[0], "sub_decay_pattern": DEFAULT[1]}
    out["trace_hash"] = hashlib.sha256(json.dumps(it.trace).encode()).hexdigest()[:16]
    out["faults"] = it.faults
    out["steps"] = it.step
    out["renders"] = it.renders
    out["transitions"] = sorted({f"{k}@{d}:{o}" for k, d, o in it.trace})
    out["max_depth"] = max([d for _, d, _ in it.trace] or [0])
    return out


def nontrivial(res: dict) -> bool:
    f = res["faults"]
    return bool(
        f["exceptional_exit"]
        or f["invalid_enter"]
        or f["invalid_set"]
        or f["reentrant_enter"]
        or f["reuse_other_force"]
        or f["render_fault_fired"]
        or res["max_depth"] >= 2
    )


# ------------------------------------------------------------------ jobs (run in a forked child)
def run_batch(args: dict) -> dict:
    """args: {"seeds": [int,...], "cfg": {...}}  -> aggregated stats, first violation (if any)."""
    agg = {
        "programs": 0,
        "steps": 0,
        "renders": 0,
        "faults": {},
        "trace_hashes": [],
        "nontrivial_hashes": [],
        "transitions": [],
        "violation": None,
        "log_digest": None,
        "samples": [],
    }
    hashes = set()
    nthashes = set()
    trans = set()
    h = hashlib.sha256()
    in_thread = 0
    for s in args["seeds"]:
        rng = random.Random(s)
        prog = generate(rng, args.get("cfg"))
        if rng.random() < 0.08:
            # the caller is a worker thread (started and joined: no interleaving, only another thread identity)
            prog = [["thread"], *prog]
            in_thread += 1
        res = execute_program(prog)
        agg["programs"] += 1
        agg["steps"] += res["steps"]
        agg["renders"] += res["renders"]
        for k, v in res["faults"].items():
            agg["faults"][k] = agg["faults"].get(k, 0) + v
        hashes.add(res["trace_hash"])
        if nontrivial(res):
            nthashes.add(res["trace_hash"])
        trans.update(res["transitions"])
        h.update(f"{s}:{res['trace_hash']}:{res['verdict']};".encode())
        if len(agg["samples"]) < 2 and nontrivial(res):
            agg["samples"].append({"seed": s, "program": prog})
        if res["verdict"] != "ok":
            agg["violation"] = {"seed": s, "program": prog, "result": res, "index_in_batch": agg["programs"] - 1}
            break
    agg["trace_hashes"] = sorted(hashes)
    agg["nontrivial_hashes"] = sorted(nthashes)
    agg["transitions"] = sorted(trans)
    agg["log_digest"] = h.hexdigest()
    agg["faults"]["program_run_from_worker_thread"] = in_thread
    return agg


def run_case(args: dict) -> dict:
    """Replay: args {"programs": [prog, ...]} executed in order in one process."""
    last = None
    for i, prog in enumerate(args["programs"]):
        last = execute_program(prog)
        last["program_index"] = i
        if last["verdict"] != "ok":
            return last
    return last or {"verdict": "ok"}


# ------------------------------------------------------------------ shrinking candidates (pure, run in the check process)
def _paths(block, prefix=()):
    for i, st in enumerate(block):
        yield prefix + (i,), st
        if st[0] in ("with", "with_new", "try"):
            yield from _paths(st[-1], prefix + (i, "b"))


def _get_block(prog, path):
    blk = prog
    for p in path:
        if p == "b":
            blk = blk[-1]
        else:
            blk = blk[p]
    return blk


def _copy(prog):
    return json.loads(json.dumps(prog))


def candidates(case: dict):
    progs = case["programs"]
    # drop whole programs
    if len(progs) > 1:
        for i in range(len(progs)):
            yield {"programs": progs[:i] + progs[i + 1 :]}
    for pi, prog in enumerate(progs):
        if prog and prog[0] == ["thread"]:
            yield {"programs": progs[:pi] + [prog[1:]] + progs[pi + 1 :]}
    for pi, prog in enumerate(progs):
        paths = list(_paths(prog))
        # delete statements, larger subtrees first
        for path, st in sorted(paths, key=lambda x: -len(json.dumps(x[1]))):
            new = _copy(prog)
            parent = _get_block(new, path[:-1])
            del parent[path[-1]]
            yield {"programs": progs[:pi] + [new] + progs[pi + 1 :]}
        # unwrap compound statements into their bodies
        for path, st in paths:
            if st[0] in ("with", "with_new", "try"):
                new = _copy(prog)
                parent = _get_block(new, path[:-1])
                parent[path[-1] : path[-1] + 1] = st[-1]
                yield {"programs": progs[:pi] + [new] + progs[pi + 1 :]}
        # simplify arguments
        for path, st in paths:
            new = _copy(prog)
            tgt = _get_block(new, path)
            changed = False
            if st[0] in ("new",):
                for j in (2, 3):
                    simple = VALID[2 + (j - 2)]
                    if is_valid(tgt[j]) and tgt[j] != simple:
                        tgt[j] = simple
                        changed = True
            elif st[0] in ("with_new", "set"):
                for j in (1, 2):
                    simple = VALID[4 + (j - 1)]
                    if is_valid(tgt[j]) and tgt[j] != simple:
                        tgt[j] = simple
                        changed = True
            elif st[0] in ("render", "render_fault") and tgt[1] != 0:
                tgt[1] = 0
                changed = True
            if changed:
                yield {"programs": progs[:pi] + [new] + progs[pi + 1 :]}
