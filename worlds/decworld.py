"""dec world, C02: one logical document delivered many ways.

Real code: all of decaylanguage.dec, the grammar, Lark, particle.
Simulated: the file system under /simfs (packaging, BOM, line ends, chunked raw
reads, read faults) and the choice of constructor."""

from __future__ import annotations

import hashlib
import json
import os
import pathlib
import random
import warnings

from simkit.simfs import PathLikeName, SimFS
from worlds import decgen, decpack
from worlds.decsnap import first_difference, snapshot

_fs = SimFS()


def parse_with_warnings(p, **kw):
    with warnings.catch_warnings(record=True) as wlog:
        warnings.simplefilter("always")
        p.parse(**kw)
    cats: dict = {}
    for w in wlog:
        cats[w.category.__name__] = cats.get(w.category.__name__, 0) + 1
    return [list(x) for x in sorted(cats.items())]


def construct(delivery: dict, keep: bool = False):
    """Build a DecFileParser from a delivery through the simulated seams.  keep=True leaves the files of earlier
    constructions in the simulated file system (a session with several instances)."""
    from decaylanguage import DecFileParser

    if delivery["mode"] == "string":
        return DecFileParser.from_string(delivery["text"])
    _fs.install()
    table = {f["name"]: f["content"].encode("utf-8") for f in delivery["files"]}
    if keep:
        table = {**_fs.files, **table}
    _fs.reset(table, delivery.get("chunk", 0), delivery.get("fault"))
    fl = delivery.get("path_flavour", "str")
    names = []
    for f in delivery["files"]:
        n = f["name"]
        names.append(n if fl == "str" else pathlib.Path(n) if fl == "Path" else PathLikeName(n))
    solo = delivery.get("solo_first")
    if solo is not None and not delivery.get("fault"):
        # earlier in the same process the caller read one of these files on its own (whatever that gave:
        # a part of a document need not parse); the files have not changed since
        try:
            with warnings.catch_warnings():
                warnings.simplefilter("ignore")
                DecFileParser(names[solo]).parse()
        except Exception:  # noqa: BLE001
            pass
        _fs.stats["solo_reads_before_delivery"] = _fs.stats.get("solo_reads_before_delivery", 0) + 1
    return DecFileParser(*names)


def observe(delivery: dict, expand_limit=60):
    """-> ("ok", snapshot incl. parse warnings) | ("construct_raises"|"parse_raises", [type, msg])"""
    f = delivery.get("fault") if delivery.get("mode") == "files" else None
    try:
        if f and f["kind"] == "interrupt":
            from simkit.inject import Injector, SimFault

            inj = Injector(int(f["k"]))
            try:
                p = inj.run(construct, delivery)
            except SimFault:
                _fs.stats["interrupt_fired"] = _fs.stats.get("interrupt_fired", 0) + 1
                return "construct_raises", ["SimFault", str(inj.where)]
        else:
            p = construct(delivery)
    except Exception as e:
        return "construct_raises", [type(e).__name__, str(e).splitlines()[0] if str(e) else ""]
    try:
        pw = parse_with_warnings(p)
    except Exception as e:
        return "parse_raises", [type(e).__name__, str(e).splitlines()[0][:200] if str(e) else ""]
    snap = snapshot(p, expand_limit=expand_limit)
    snap.append(["parse_warnings", [], {"v": pw}])
    if delivery.get("reparse"):
        # parsing the same input again (the files are still where they were) must change no answer
        try:
            with warnings.catch_warnings():
                warnings.simplefilter("ignore")
                p.parse()
        except Exception as e:
            return "reparse_raises", [type(e).__name__, str(e).splitlines()[0][:200] if str(e) else ""]
        again = snapshot(p, expand_limit=expand_limit)
        again.append(["parse_warnings", [], {"v": pw}])
        if again != snap:
            from worlds.decsnap import first_difference as _fd

            return "reparse_differs", ["answers changed", str(_fd(snap, again))[:300]]
    return "ok", snap


def load_document(args: dict, rng: random.Random | None):
    if "doc" in args:
        return args["doc"], args.get("doc_source", "explicit")
    if "file" in args:
        path = args["file"]
        with open(path, encoding="utf-8") as f:
            text = f.read()
        doc = decgen.raw_document(text)
        return doc, f"file:{os.path.basename(path)}"
    return decgen.generate(rng, args.get("gen_cfg")), "generated"


def run_c02(args: dict) -> dict:
    """args (seeded):   {"seed": int, "n_deliveries": int, "faults": bool, ["file": path], ["gen_cfg": {...}]}
       args (explicit): {"doc": doc, "deliveries": [{"dseed": int, "knobs": {...}}, ...]}"""
    rng = random.Random(args["seed"]) if "seed" in args else None
    doc, source = load_document(args, rng)
    out = {"verdict": "ok", "source": source, "deliveries": 0, "abstract": [], "sim_abstract": [], "fs": {}, "faults": {},
           "log_digest": None}
    if doc is None:
        out["verdict"] = "discard"
        out["reason"] = "End line followed by statements"
        return out
    raw = bool(doc.get("meta", {}).get("raw"))
    canon = decgen.canonical_text(doc)
    expand_limit = 0 if raw and len(canon) > 200_000 else 60
    kind, oracle = observe({"mode": "string", "text": canon}, expand_limit)
    if kind != "ok":
        out["verdict"] = "discard"
        out["reason"] = f"canonical text does not parse: {kind} {oracle}"
        return out
    if "deliveries" in args:
        plans = args["deliveries"]
    else:
        plans = []
        for _ in range(args.get("n_deliveries", 8)):
            plans.append({"dseed": rng.getrandbits(48), "knobs": decpack.draw_knobs(rng, faults=bool(args.get("faults")), raw=raw)})
    h = hashlib.sha256()
    h.update(json.dumps(oracle, sort_keys=True).encode())
    faults = {"eio_surfaced": 0, "fault_absorbed": 0, "vanish_surfaced": 0, "constructor_interrupted": 0, "fault_not_reached": 0, "retries_after_fault": 0}
    for i, plan in enumerate(plans):
        knobs = dict(decpack.KNOB_DEFAULTS)
        knobs.update(plan["knobs"])
        delivery = decpack.make_delivery(doc, plan["dseed"], knobs)
        before = dict(_fs.stats)
        kind, got = observe(delivery, expand_limit)
        out["deliveries"] += 1
        ab = hashlib.sha256(repr(decpack.abstract(knobs)).encode()).hexdigest()[:12]
        out["abstract"].append(ab)
        if decpack.is_simulated_dimension(knobs):
            out["sim_abstract"].append(ab)
        h.update(f"{i}:{kind}:".encode())
        h.update(json.dumps(got, sort_keys=True).encode())
        fired = {k: _fs.stats[k] - before.get(k, 0) for k in _fs.stats}
        fault = delivery.get("fault") if delivery["mode"] == "files" else None
        if fault:
            # relaxed oracle, deliberately narrow: the constructor may fail; it may never answer from truncated input
            if kind == "construct_raises":
                faults[{"eio": "eio_surfaced", "vanish": "vanish_surfaced", "interrupt": "constructor_interrupted"}[fault["kind"]]] += 1
                # the fault was transient: the same files, unchanged, are read again in the same process
                retry = dict(delivery)
                retry["fault"] = None
                kind, got = observe(retry, expand_limit)
                faults["retries_after_fault"] += 1
                out["deliveries"] += 1
                fault = None  # from here on the ordinary, strict oracle applies
            elif not (fired["eio_fired"] or fired["vanish_fired"] or fired.get("interrupt_fired")):
                faults["fault_not_reached"] += 1  # e.g. a kill point beyond the end of the constructor: an ordinary delivery
                fault = None
            else:
                faults["fault_absorbed"] += 1  # the constructor returned although the fault fired: it must still answer canonically
        retried = bool(delivery.get("fault")) and fault is None
        if kind != "ok":
            out["verdict"] = "violation"
            out["signature"] = {"check": ("retry_after_fault_" if retried else "delivery_") + kind, "exc": got[0], "faulted": bool(fault)}
            out["detail"] = {"delivery_index": i, "knobs": {k: v for k, v in knobs.items() if v != decpack.KNOB_DEFAULTS[k]}, "error": got}
            out["failing_plan"] = plan
            break
        diff = first_difference(oracle, got)
        if diff is not None:
            out["verdict"] = "violation"
            out["signature"] = {"check": "retry_after_fault_differs_from_canonical" if retried else "delivery_differs_from_canonical", "exc": None, "faulted": bool(fault)}
            out["detail"] = {"delivery_index": i, "knobs": {k: v for k, v in knobs.items() if v != decpack.KNOB_DEFAULTS[k]}, "diff": diff}
            out["failing_plan"] = plan
            break
    out["fs"] = dict(_fs.stats)
    out["faults"] = faults
    out["log_digest"] = h.hexdigest()
    out["n_statements"] = sum(1 for _ in doc["statements"])
    out["n_lines"] = sum(len(s["lines"]) for s in doc["statements"])
    out["tables"] = next((len(e[2]["v"]) for e in oracle if e[0] == "list_decay_mother_names" and "v" in e[2]), 0)
    if args.get("return_case") or out["verdict"] == "violation":
        out["case"] = {"doc": doc, "doc_source": source, "deliveries": [out["failing_plan"]] if out["verdict"] == "violation" else plans}
    return out


def describe(args: dict) -> dict:
    """Render the files of an explicit case for the human-readable part of a replay."""
    doc = args["doc"]
    res = {"canonical_text": decgen.canonical_text(doc)[:20000], "deliveries": []}
    for plan in args["deliveries"]:
        knobs = dict(decpack.KNOB_DEFAULTS)
        knobs.update(plan["knobs"])
        d = decpack.make_delivery(doc, plan["dseed"], knobs)
        if d["mode"] == "files":
            for f in d["files"]:
                f["content"] = f["content"][:20000]
        else:
            d["text"] = d["text"][:20000]
        res["deliveries"].append(d)
    return res


# ------------------------------------------------------------------ shrinking
def candidates(case: dict):
    doc = case["doc"]
    plans = case["deliveries"]

    def with_doc(d):
        return {**case, "doc": d}

    # fewer deliveries
    if len(plans) > 1:
        for i in range(len(plans)):
            yield {**case, "deliveries": [plans[i]]}
    stmts = doc["statements"]
    raw = bool(doc.get("meta", {}).get("raw"))
    if raw:
        lines = stmts[0]["lines"]
        n = len(lines)
        size = n // 2
        while size >= 1:
            for start in range(0, n, size):
                new = lines[:start] + lines[start + size :]
                if len(new) < n:
                    yield with_doc({"statements": [{"kind": "raw", "lines": new}], "meta": doc["meta"]})
            size //= 2
    else:
        n = len(stmts)
        size = n // 2
        while size >= 1:
            for start in range(0, n, size):
                new = stmts[:start] + stmts[start + size :]
                if len(new) < n:
                    yield with_doc({"statements": new, "meta": doc.get("meta", {})})
            size //= 2
        for si, st in enumerate(stmts):
            if st["kind"] == "decay" and len(st["lines"]) > 2:
                for li in range(1, len(st["lines"]) - 1):
                    st2 = {**st, "lines": st["lines"][:li] + st["lines"][li + 1 :]}
                    yield with_doc({"statements": stmts[:si] + [st2] + stmts[si + 1 :], "meta": doc.get("meta", {})})
        # shorter parameter lists / fewer daughters
        for si, st in enumerate(stmts):
            for li, ln in enumerate(st["lines"]):
                if ln.get("params"):
                    for cut in (ln["params"][:1], ln["params"][1:]):
                        if cut != ln["params"]:
                            ln2 = {**ln, "params": cut or None}
                            st2 = {**st, "lines": st["lines"][:li] + [ln2] + st["lines"][li + 1 :]}
                            yield with_doc({"statements": stmts[:si] + [st2] + stmts[si + 1 :], "meta": doc.get("meta", {})})
    # knobs back to their defaults, one at a time
    for pi, plan in enumerate(plans):
        for k, v in sorted(plan["knobs"].items()):
            dv = decpack.KNOB_DEFAULTS.get(k)
            if v != dv:
                k2 = dict(plan["knobs"])
                k2[k] = dv
                yield {**case, "deliveries": plans[:pi] + [{**plan, "knobs": k2}] + plans[pi + 1 :]}
            if k == "n_files" and isinstance(v, int) and v > 2:
                k2 = dict(plan["knobs"])
                k2[k] = v - 1
                yield {**case, "deliveries": plans[:pi] + [{**plan, "knobs": k2}] + plans[pi + 1 :]}
