"""ampgen world (C19, C20): the life of a process that reads AmpGen option
files and converts them to GooFit code.

Real code: decaylanguage.modeling.*, __main__, lark, particle, pandas, plumbum.
Simulated: the wall clock read by the converters, stdout, the option files
(served from memory through the module-level `open` of amplitudechain), the
interpreter hash seed (one zygote per value) and - for C19 - the consumer of
the generated Python, a recording `goofit` module.
"""

from __future__ import annotations

import contextlib
import hashlib
import io
import json
import os
import random
import re
import sys
import types
import zlib

SHIPPED_MODEL = "/repo/models/DtoKpipipi_v2.txt"
SIM_PREFIX = "/simamp/"


# ------------------------------------------------------------------ file pool
_catalogue = None


def catalogue():
    """The shipped model cut into top lines, partial lines by head, constants and parameters."""
    global _catalogue
    if _catalogue is None:
        with open(SHIPPED_MODEL, encoding="utf-8") as f:
            lines = [ln.rstrip("\n") for ln in f]
        cat = {"event": None, "top": [], "partial": {}, "consts": {}, "params": {}, "order": lines}
        for ln in lines:
            s = ln.split()
            if not s or ln.lstrip().startswith("#"):
                continue
            if s[0] == "EventType":
                cat["event"] = ln
            elif len(s) == 2:
                cat["consts"][s[0]] = ln
            elif len(s) == 4:
                cat["params"][s[0]] = ln
            elif len(s) == 7:
                head = re.match(r"[^\[{]+", s[0]).group(0)
                if head == "D0":
                    cat["top"].append(ln)
                else:
                    cat["partial"].setdefault(head, []).append(ln)
        _catalogue = cat
    return _catalogue


_BARE = re.compile(r"[{,]([A-Za-z][^{},\[\]]*)(?=[,}])")
STABLE = {"K-", "pi+", "pi-", "K+"}


def bare_names(decay: str):
    """daughters written without their own decay (to be expanded from partial lines)"""
    return [n for n in _BARE.findall(decay) if n not in STABLE]


def make_file(rng: random.Random, cfg: dict | None = None) -> dict:
    """A closed sub-model: 1-3 top lines plus every partial line, constant and
    parameter family they need.  Returns {"name", "text", "tags"}."""
    cfg = cfg or {}
    cat = catalogue()
    n_top = rng.randint(1, cfg.get("max_top", 3))
    tops = rng.sample(cat["top"], n_top)
    if cfg.get("force_top"):
        tops = [t for t in cat["top"] if t.split()[0] in cfg["force_top"]]
    body = []
    partial_lines = []
    heads_done = set()
    todo = []
    for t in tops:
        todo.extend(bare_names(t.split()[0]))
    while todo:
        h = todo.pop(0)
        if h in heads_done:
            continue
        heads_done.add(h)
        alts = cat["partial"].get(h, [])
        if not alts:
            continue
        k = rng.randint(1, min(len(alts), cfg.get("max_alt", 2)))
        chosen = sorted(rng.sample(range(len(alts)), k))
        for i in chosen:
            partial_lines.append(alts[i])
            todo.extend(bare_names(alts[i].split()[0]))
    all_decays = tops + partial_lines
    text_all = "\n".join(all_decays)
    consts, params = [], []
    tags = set()
    n_spline = rng.choice([3, 4, 5])
    spline_heads = set()
    for ln in all_decays:
        m = re.match(r"([^\[{]+)\[([^\]]*)\]", ln.split()[0])
        if m and "GSpline" in m.group(2):
            spline_heads.add(m.group(1))
    for head in sorted(spline_heads):
        if True:
            tags.add("GSpline")
            consts.append(f"{head}::Spline::Min {cat['consts'][head + '::Spline::Min'].split()[1]}")
            consts.append(f"{head}::Spline::Max {cat['consts'][head + '::Spline::Max'].split()[1]}")
            consts.append(f"{head}::Spline::N {n_spline}")
            idx = list(range(n_spline))
            if rng.random() < 0.5:
                rng.shuffle(idx)  # parameter lines need not be in index order
            for i in idx:
                params.append(cat["params"][f"{head}::Spline::Gamma::{i}"])
            for suffix in ("_mass", "_radius", "_width"):
                if head + suffix in cat["params"] and rng.random() < 0.6:
                    params.append(cat["params"][head + suffix])
    if "kMatrix" in text_all:
        tags.add("kMatrix")
        km = [v for k, v in cat["params"].items() if k.startswith(("IS_p", "f_scatt")) or k in ("s0_prod", "s0_scatt", "sA")]
        if rng.random() < 0.5:
            rng.shuffle(km)
        params.extend(km)
        params.append("sA0                                               2              -0.15          0")
        for k, v in cat["params"].items():
            if k.endswith("_s0_prod") and k.split("_")[0] in text_all:
                params.append(v)
    if "FOCUS" in text_all:
        tags.add("FOCUS")
    if rng.random() < 0.7 or cfg.get("force_collision"):
        params.append(cat["params"]["D0_radius"])
        if cfg.get("collisions") and (rng.random() < 0.6 or cfg.get("force_collision")):
            # two legal parameter names that collapse to one programmatic name (C20 pools only: what the generator makes of
            # such a pair is C19's business, that it makes the same of it in every process is C20's)
            params.append("D0::radius                                        2              0.0041         0")
            tags.add("colliding_parameter_names")

    def vary(ln):
        s = ln.split()
        if rng.random() < 0.3:  # fixed <-> free
            s[1] = s[4] = "0" if s[1] == "2" else "2"
            tags.add("flag_flipped")
        if rng.random() < 0.3:
            s[2] = f"{float(s[2]) * rng.choice([0.5, 1.5, 2.0]):.6g}"
            s[5] = f"{float(s[5]) + rng.choice([-0.5, 0.25, 1.0]):.6g}"
        return f"{s[0]:<60} {s[1]} {s[2]:<10} {s[3]:<10} {s[4]} {s[5]:<10} {s[6]}"

    def vary_param(ln):
        s = ln.split()
        if len(s) == 4 and s[1] == "0" and rng.random() < 0.4:
            # a free parameter given without a step size: unusual, legal
            tags.add("free_parameter_with_zero_error")
            return f"{s[0]:<50}{s[1]:<15}{s[2]:<15}0"
        return ln

    params = [vary_param(ln) for ln in params]
    decays = [vary(ln) for ln in all_decays]
    if any(ln.split()[1] == "0" for ln in decays):
        tags.add("free_coupling")
    if any(ln.split()[1] == "2" for ln in decays):
        tags.add("fixed_coupling")
    if cfg.get("unconvertible"):
        # a lineshape tag the grammar accepts and the converters do not implement: reading works, converting raises part-way
        decays = [re.sub(r"rho\(770\)0\{", "rho(770)0[GounarisSakurai]{", d, count=1) if "rho(770)0{" in d else d for d in decays]
        if any("GounarisSakurai" in d for d in decays):
            tags.add("unimplemented_lineshape")
    sections = [decays, consts, params]
    if rng.random() < 0.3:
        rng.shuffle(sections)
    body = [cat["event"], ""]
    if cfg.get("cartesian"):
        body.append(f"FastCoherentSum::UseCartesian {rng.choice([1, 1, 1, 1, 0])}")
        tags.add("cartesian_option")
    for sec in sections:
        if rng.random() < 0.3:
            body.append("# " + rng.choice(["section", "generated sub-model", "K- pi+ pi+ pi-"]))
        body.extend(sec)
        if rng.random() < 0.5:
            body.append("")
    text = "\n".join(body) + "\n"
    name = "m" + hashlib.sha256(text.encode()).hexdigest()[:10] + ".opts"
    res = sorted(set(re.findall(r"[A-Za-z][^{},]*", re.sub(r"\[[^\]]*\]", "", " ".join(ln.split()[0] for ln in all_decays)))) - STABLE)
    return {"name": name, "text": text, "tags": sorted(tags), "n_top": len(tops), "n_decay_lines": len(decays), "resonances": res}


def permuted_twin(f: dict, rng: random.Random) -> dict:
    """The same model with the final-state particles of the EventType line in another order."""
    lines = f["text"].split("\n")
    for i, ln in enumerate(lines):
        s = ln.split()
        if s and s[0] == "EventType":
            fs = s[2:]
            for _ in range(10):
                perm = fs[:]
                rng.shuffle(perm)
                if perm != fs:
                    break
            lines[i] = " ".join([s[0], s[1], *perm])
    text = "\n".join(lines)
    return {**f, "name": "t" + hashlib.sha256(text.encode()).hexdigest()[:10] + ".opts", "text": text, "tags": sorted(set(f["tags"]) | {"event_type_permuted"})}


def make_pool(seed: int, n: int, cfg: dict | None = None) -> list:
    rng = random.Random(seed)
    pool, seen = [], set()
    cfg = dict(cfg or {})
    tries = 0
    while len(pool) < n and tries < 200:
        tries += 1
        c = dict(cfg)
        if cfg.get("with_cartesian") and len(pool) == n - 1:
            c["cartesian"] = True
        if cfg.get("collisions") and len(pool) == 0:
            c["force_collision"] = True
        if cfg.get("with_unconvertible") and len(pool) == 1:
            c["unconvertible"] = True
            c["force_top"] = ["D0{K*(892)bar0{K-,pi+},rho(770)0{pi+,pi-}}", "D0[P]{K*(892)bar0{K-,pi+},rho(770)0{pi+,pi-}}"]
        f = make_file(rng, c)
        key = tuple(f["resonances"])
        if f["name"] in seen or (key in seen and tries < 100):
            continue  # pool files differ in resonance content on purpose
        seen.add(f["name"])
        seen.add(key)
        pool.append(f)
    return pool


# ------------------------------------------------------------------ seams
class SimClock:
    """Stands in for the `datetime` module inside ampgen2goofit."""

    def __init__(self, start=1_700_000_000.0):
        import datetime as _dt

        self._dt = _dt
        self.t = start
        self.reads = 0
        self.jumps = 0
        self.schedule: list = []  # deltas applied *before* successive reads
        clock = self

        class _DateTime:
            @staticmethod
            def now(tz=None):
                clock.reads += 1
                if clock.schedule:
                    d = clock.schedule.pop(0)
                    if d:
                        clock.jumps += 1
                        clock.t += d
                return _dt.datetime.fromtimestamp(clock.t, _dt.timezone.utc).replace(tzinfo=None)

        self.datetime = _DateTime


_seams = {"installed": False, "files": {}, "clock": None, "opens": 0, "fail_table_load": 0, "table_load_faults_fired": 0, "versions": {}, "stats": 0}
SPECIAL_TABLE = "MintDalitzSpecialParticles.csv"


def install_seams(files: dict):
    """Route option-file opens under /simamp/ to memory and the converters' clock to the simulator."""
    import decaylanguage.modeling.ampgen2goofit as a2g
    import decaylanguage.modeling.amplitudechain as ac

    _seams["files"] = dict(files)
    if not _seams["installed"]:
        _seams["installed"] = True
        real_open = open

        def sim_open(file, mode="r", *a, **kw):
            try:
                s = str(file)
            except Exception:
                s = ""
            if s.startswith(SIM_PREFIX):
                _seams["opens"] += 1
                if s not in _seams["files"]:
                    raise FileNotFoundError(2, "No such file or directory", s)
                return io.StringIO(_seams["files"][s])
            return real_open(file, mode, *a, **kw)

        ac.open = sim_open  # shadows the builtin in that module's namespace only
        import builtins
        import pathlib

        real_b_open = builtins.open
        real_read_text = pathlib.Path.read_text

        def b_open(file, mode="r", *a, **kw):
            try:
                s = str(file) if not isinstance(file, int) else ""
            except Exception:
                s = ""
            if s.startswith(SIM_PREFIX):
                return sim_open(file, mode)
            if _seams["fail_table_load"] and s.endswith(SPECIAL_TABLE):
                # transient I/O error while the one-time special-particle table is being loaded
                _seams["fail_table_load"] -= 1
                _seams["table_load_faults_fired"] += 1
                raise OSError(5, "simulated I/O error", s)
            return real_b_open(file, mode, *a, **kw)

        def read_text(self, *a, **kw):
            if str(self).startswith(SIM_PREFIX):
                return sim_open(str(self)).read()
            return real_read_text(self, *a, **kw)

        real_path_open = pathlib.Path.open

        def path_open(self, mode="r", *a, **kw):
            if str(self).startswith(SIM_PREFIX):
                return sim_open(str(self), mode)
            return real_path_open(self, mode, *a, **kw)

        import stat as stat_mod

        real_stat, real_lstat = os.stat, os.lstat

        def sim_stat(real):
            def f(path, *a, **kw):
                try:
                    s = os.fspath(path)
                    s = s.decode("utf-8", "surrogateescape") if isinstance(s, bytes) else s
                except TypeError:
                    s = ""
                if isinstance(s, str) and (s.startswith(SIM_PREFIX) or s == SIM_PREFIX.rstrip("/")):
                    # a changed file has a later modification time; size in bytes of the UTF-8 text
                    _seams["stats"] += 1
                    if s.rstrip("/") == SIM_PREFIX.rstrip("/"):
                        t, mode, size = 1_600_000_000, stat_mod.S_IFDIR | 0o755, 4096
                    elif s in _seams["files"]:
                        t = 1_600_000_000 + 7 * _seams["versions"].get(s, 0)
                        mode, size = stat_mod.S_IFREG | 0o644, len(_seams["files"][s].encode("utf-8"))
                    else:
                        raise FileNotFoundError(2, "No such file or directory", s)
                    ns = t * 10 ** 9
                    return os.stat_result((mode, zlib.crc32(s.encode()) + 2, 99, 1, 0, 0, size, t, t, t, float(t), float(t), float(t), ns, ns, ns))
                return real(path, *a, **kw)

            return f

        os.stat, os.lstat = sim_stat(real_stat), sim_stat(real_lstat)
        builtins.open = b_open
        pathlib.Path.read_text = read_text
        pathlib.Path.open = path_open
        _seams["clock"] = SimClock()
        a2g.datetime = _seams["clock"]
    return _seams["clock"]


class Sink(io.StringIO):
    """Simulated stdout."""


@contextlib.contextmanager
def stdout_sink():
    s = Sink()
    old = sys.stdout
    sys.stdout = s
    try:
        yield s
    finally:
        sys.stdout = old


def process_state_probe():
    """A cheap digest of everything in the modeling package (and the particle table) that outlives a call: every class
    attribute and module global that is a set / dict / list / bool / None / DataFrame, by identity and size."""
    import importlib
    import inspect

    slots = []
    for modname in ("decaylanguage.modeling.amplitudechain", "decaylanguage.modeling.goofit", "decaylanguage.modeling.ampgen2goofit",
                    "decaylanguage.modeling.decay", "decaylanguage.utils.particleutils"):
        mod = importlib.import_module(modname)
        owners = [mod] + [c for _, c in inspect.getmembers(mod, inspect.isclass) if getattr(c, "__module__", "").startswith("decaylanguage")]
        for o in owners:
            for name in list(vars(o)):
                if name.startswith("__"):
                    continue
                slots.append((o, name))
    from particle import Particle

    def size(v):
        try:
            return len(v)
        except Exception:
            return -1

    def probe():
        out = []
        for o, name in slots:
            v = o.__dict__.get(name, None)
            if isinstance(v, (set, dict, list)):
                out.append((id(v), len(v)))
            elif isinstance(v, (bool, int, str)) or v is None:
                out.append(v)
            elif type(v).__name__ == "DataFrame":
                out.append(id(v))
        # class attributes created on subclasses during the call (cls.x = ...) show up as new keys
        out.append(tuple(len(vars(o)) for o, _ in slots[:: max(1, len(slots) // 8)]))
        out.append((size(getattr(Particle, "_table", None)), size(getattr(Particle, "_table_names", None))))
        return tuple(out)

    return probe


# ------------------------------------------------------------------ operations and observations
READERS = {"AmplitudeChain": ("decaylanguage.modeling.amplitudechain", "AmplitudeChain"),
           "GooFitChain": ("decaylanguage.modeling.goofit", "GooFitChain"),
           "GooFitPyChain": ("decaylanguage.modeling.goofit", "GooFitPyChain")}


def _derived(n, attr):
    """A derived public attribute of an amplitude node (full_amp, L, ls_enum); an exception is an answer too."""
    try:
        v = getattr(n, attr)
    except Exception as e:  # noqa: BLE001 - e.g. L of a leaf, ls_enum of an unimplemented lineshape
        return "raise:" + type(e).__name__
    if isinstance(v, complex):
        return [repr(v.real), repr(v.imag)]
    return getattr(v, "name", None) or repr(v)


def _line_obs(ln):
    def node(n):
        return {"p": str(n.particle), "name": n.name, "ls": n.lineshape, "sf": n.spinfactor, "d": [node(x) for x in n.daughters],
                "L": _derived(n, "L"), "ls_enum": _derived(n, "ls_enum"), "full_amp": _derived(n, "full_amp")}

    return {"str": str(ln), "amp": [repr(ln.amp.real), repr(ln.amp.imag)], "err": [repr(ln.err.real), repr(ln.err.imag)],
            "fix": bool(ln.fix), "tree": node(ln)}


def _table_obs(df):
    return {"columns": [str(c) for c in df.columns], "rows": [[str(i), *[repr(v) if not isinstance(v, (bool,)) else bool(v) for v in row]]
                                                                 for i, row in zip(df.index, df.itertuples(index=False, name=None))]}


def do_op(op: dict, files: dict) -> dict:
    """Execute one read/convert call; returns {"kind": "read"|"text"|"raise", ...} (JSON-able)."""
    import importlib

    if op["op"] == "arm_table_fault":
        _seams["fail_table_load"] = 1
        return {"kind": "armed"}
    if op["op"] == "interrupt":
        # the call is killed at its k-th line event inside the package (KeyboardInterrupt-like); what it leaves behind is
        # what the following calls of the history have to cope with
        from simkit.inject import Injector, SimFault

        if op.get("after_mutation"):
            from simkit.inject import MutationInjector

            inj = MutationInjector(int(op["after_mutation"]), process_state_probe())
        else:
            inj = Injector(int(op["k"]), op.get("target"))
        try:
            inj.run(do_op, op["inner"], files)
        except SimFault:
            return {"kind": "interrupted", "where": inj.where}
        return {"kind": "interrupt_not_reached", "line_events": inj.count, "mutations_seen": getattr(inj, "mutations", None)}
    path = SIM_PREFIX + op["file"]
    try:
        if op["op"] == "read":
            mod, cls = READERS[op["cls"]]
            C = getattr(importlib.import_module(mod), cls)
            with stdout_sink() as sink:
                if op.get("by") == "text":
                    res = C.read_ampgen(text=files[path])
                else:
                    res = C.read_ampgen(path)
            if op["cls"] == "AmplitudeChain":
                lines, pars, consts, states = res
            else:
                lines, states = res
                pars, consts = C.pars, C.consts
            return {"kind": "read", "event_type": [str(s) for s in states], "lines": [_line_obs(ln) for ln in lines],
                    "parameters": _table_obs(pars), "constants": _table_obs(consts), "stdout": sink.getvalue()}
        from decaylanguage.modeling import ampgen2goofit as a2g

        fn = a2g.ampgen2goofit if op["lang"] == "cpp" else a2g.ampgen2goofitpy
        with stdout_sink() as sink:
            if op.get("via") == "cli":
                from decaylanguage.__main__ import DecayLanguageDecay

                DecayLanguageDecay.run(["decaylanguage", "-G", "goofit" if op["lang"] == "cpp" else "goofitpy", path], exit=False)
                ret = None
            elif op.get("bystander"):
                # while this conversion runs, another thread of the caller gets one turn at a seeded line boundary and
                # prints a line of its own to the process's stdout
                from simkit.inject import BystanderInjector

                inj = BystanderInjector(int(op["bystander"]["k"]), lambda: print(op["bystander"]["text"]))
                ret = inj.run(fn, path, ret_output=bool(op.get("ret")))
                return {"kind": "text", "returned": ret, "stdout": sink.getvalue(), "bystander_fired": inj.fired, "line_events": inj.count}
            else:
                ret = fn(path, ret_output=bool(op.get("ret")))
        return {"kind": "text", "returned": ret, "stdout": sink.getvalue()}
    except Exception as e:
        return {"kind": "raise", "exc": type(e).__name__, "msg": (str(e).splitlines() or [""])[0][:200]}


def op_text(obs: dict):
    """The produced output of a conversion, wherever it went."""
    if obs["kind"] != "text":
        return None
    return obs["returned"] if obs["returned"] is not None else obs["stdout"]


# ------------------------------------------------------------------ normaliser
def strip_timestamp(text: str) -> str:
    return "\n".join(ln for ln in text.split("\n") if not ln.startswith("Generated on"))


def normalise_text(text: str) -> dict:
    """'ignoring the timestamp line and the relative order of mutually independent declarations'"""
    lang = "cpp" if text.lstrip().startswith("/*") else "py"
    lines = strip_timestamp(text).split("\n")
    m_intro = "    // Intro" if lang == "cpp" else "#Intro "
    m_pars = "    // Parameters" if lang == "cpp" else "# Parameters"
    m_lines = "    // Lines" if lang == "cpp" else "# Lines"

    def find(marker, start=0):
        for i in range(start, len(lines)):
            if lines[i].rstrip() == marker.rstrip():
                return i
        return None

    i_intro, i_pars, i_lines = find(m_intro), find(m_pars), find(m_lines)
    if None in (i_intro, i_pars, i_lines) or not (i_intro < i_pars < i_lines):
        # the generator's section markers are gone (a template change): fall back to the multiset of lines, which forgives
        # more than the property allows but cannot raise an alarm over a reordering
        return {"lang": lang, "unsectioned_sorted_lines": sorted(lines)}
    header, intro, pars, body = lines[:i_intro], lines[i_intro + 1 : i_pars], lines[i_pars + 1 : i_lines], lines[i_lines:]
    # header: the spin-configuration groups (an unindented 'X : SF...' head line + its indented members) are a multiset
    groups, rest, cur = [], [], None
    for ln in header:
        if re.match(r"^\S.* : ", ln) and "SF_4Body" in ln:
            cur = [ln]
            groups.append(cur)
        elif cur is not None and ln.startswith("  ") and ln.strip():
            cur.append(ln)
        else:
            cur = None
            rest.append(ln)
    # parameters: declaration units; multi-line arrays stay whole and in order
    units, buf = [], None
    for ln in pars:
        if buf is not None:
            buf.append(ln)
            if ln.rstrip().endswith("}};") or ln.rstrip().endswith("]"):
                units.append("\n".join(buf))
                buf = None
            continue
        if not ln.strip():
            continue
        if ln.rstrip().endswith("{{") or ln.rstrip().endswith("["):
            buf = [ln]
        else:
            units.append(ln)
    if buf is not None:
        units.append("\n".join(buf))
    return {"lang": lang, "header_groups": sorted(groups), "header_rest": rest,
            "intro_units": sorted(ln for ln in intro if ln.strip()), "parameter_units": sorted(units), "lines": body}


def normalise_obs(obs: dict) -> dict:
    if obs["kind"] == "text":
        t = op_text(obs)
        return {"kind": "text", "norm": normalise_text(t)}
    return obs


def first_diff(a, b, path=""):
    if type(a) is not type(b):
        return {"at": path, "a": _clip(a), "b": _clip(b)}
    if isinstance(a, dict):
        for k in sorted(set(a) | set(b)):
            if k not in a or k not in b:
                return {"at": f"{path}.{k}", "a": _clip(a.get(k, "<absent>")), "b": _clip(b.get(k, "<absent>"))}
            d = first_diff(a[k], b[k], f"{path}.{k}")
            if d:
                return d
        return None
    if isinstance(a, list):
        for i, (x, y) in enumerate(zip(a, b)):
            d = first_diff(x, y, f"{path}[{i}]")
            if d:
                return d
        if len(a) != len(b):
            longer = a if len(a) > len(b) else b
            return {"at": f"{path}[{min(len(a), len(b))}]", "a_len": len(a), "b_len": len(b), "extra": _clip(longer[min(len(a), len(b))])}
        return None
    return None if a == b else {"at": path, "a": _clip(a), "b": _clip(b)}


def _clip(v, n=300):
    s = v if isinstance(v, str) else json.dumps(v, default=str)
    return s if len(s) <= n else s[:n] + "..."


# ------------------------------------------------------------------ jobs
def _files_of(pool):
    return {SIM_PREFIX + f["name"]: f["text"] for f in pool}


def run_ops(args: dict) -> dict:
    """args: {"pool": [{"name","text"}...], "ops": [...], "clock": [deltas]} -> observations of every op, in order."""
    files = _files_of(args["pool"])
    clock = install_seams(files)
    clock.schedule = list(args.get("clock") or [])
    out = []
    texts = {f["name"]: f["text"] for f in args["pool"]}
    for op in args["ops"]:
        tgt = op["inner"] if op["op"] == "interrupt" else op
        if tgt.get("content") and "file" in tgt:
            # the file system changes between calls: this name now holds another pool file's text
            if _seams["files"].get(SIM_PREFIX + tgt["file"]) != texts[tgt["content"]]:
                _seams["versions"][SIM_PREFIX + tgt["file"]] = _seams["versions"].get(SIM_PREFIX + tgt["file"], 0) + 1
            files[SIM_PREFIX + tgt["file"]] = texts[tgt["content"]]
            _seams["files"][SIM_PREFIX + tgt["file"]] = texts[tgt["content"]]
        fired0 = _seams["table_load_faults_fired"]
        o = json.loads(json.dumps(do_op(op, files)))  # plain JSON types only (lark Tokens are str subclasses)
        if _seams["table_load_faults_fired"] != fired0:
            o["faulted"] = True  # this call met the injected I/O error: nothing is promised about it, only about the calls after it
        out.append(o)
    return {"obs": out, "clock_reads": clock.reads, "clock_jumps": clock.jumps, "opens": _seams["opens"]}


# ------------------------------------------------------------------ C19: six replicas of one conversion
REPLICAS = [("cpp", "print"), ("cpp", "ret"), ("cpp", "cli"), ("py", "print"), ("py", "ret"), ("py", "cli")]


def allowed_missing(text: str) -> list:
    """Symbols a lineshape needs that the *input file* never defines: the
    property's precondition fails for them, it is not the generator's fault."""
    names = {ln.split()[0] for ln in text.splitlines() if len(ln.split()) == 4}
    out = []
    if "kMatrix" in text:
        for sym, par in (("sA_0", "sA0"), ("sA", "sA"), ("s0_prod", "s0_prod"), ("s0_scatt", "s0_scatt")):
            if par not in names:
                out.append(sym)
        if not any(n.startswith("f_scatt") for n in names):
            out.append("f_scatt")
        if not any(n.startswith("IS_p") for n in names):
            out.append("IS_poles")
    return out


BYSTANDER_LINE = "[worker 2] heartbeat: another thread of the caller wrote this line"


def run_c19(args: dict) -> dict:
    """One session: 1-2 option files, their conversion replicas interleaved in a seeded order.

    args: {"files": [{"name","text"}, ...], "order": [[file index, index into REPLICAS], ...], "clock": [deltas per clock read]}
          (older replays: {"file": {...}, "order": [replica indices]})"""
    from worlds import ampcheck

    flist = args["files"] if "files" in args else [args["file"]]
    order = args.get("order")
    if order is None:
        order = [[0, i] for i in range(6)]
    order = [[0, o] if isinstance(o, int) else list(o) for o in order]
    files = _files_of(flist)
    clock = install_seams(files)
    clock.schedule = list(args.get("clock") or [])
    obs = {}
    stats = {"conversions": 0, "clock_reads": 0, "clock_jumps": 0, "precondition_unmet": 0, "amplitudes": 0, "lineshapes": 0,
             "spin_factors": 0, "parameters": 0, "arrays": 0, "replicas_compared": 0, "files_in_session": len(flist),
             "replicas_with_other_file_in_between": 0}
    out = {"verdict": "ok", "stats": stats, "file": "+".join(f["name"] for f in flist), "lineshape_kinds": [], "spin_kinds": []}
    ls_kinds, sf_kinds = set(), set()
    try:
        last_file = None
        seen_files = set()
        seen_ops: list = []
        for fi, idx in order:
            f = flist[fi]
            lang, how = REPLICAS[idx]
            op = {"op": "convert", "lang": lang, "file": f["name"], "ret": how == "ret"}
            if how == "cli":
                op["via"] = "cli"
            by = (args.get("bystander") or {}).get(str(len(seen_ops)))
            seen_ops.append(idx)
            if by and how == "ret":
                op["bystander"] = {"k": int(by), "text": BYSTANDER_LINE}
            if fi in seen_files and last_file != fi:
                stats["replicas_with_other_file_in_between"] += 1
            seen_files.add(fi)
            last_file = fi
            if args.get("table_fault_before") == stats["conversions"]:
                _seams["fail_table_load"] = 1  # the next load of the special-particle table meets a transient I/O error
            fired0 = _seams["table_load_faults_fired"]
            if args.get("wfilter") == "error":
                import warnings

                with warnings.catch_warnings():
                    warnings.simplefilter("error")  # a process run with -W error / PYTHONWARNINGS=error
                    o = do_op(op, files)
            else:
                o = do_op(op, files)
            stats["conversions"] += 1
            if _seams["table_load_faults_fired"] != fired0:
                stats["replicas_hit_by_table_load_fault"] = stats.get("replicas_hit_by_table_load_fault", 0) + 1
                continue  # nothing is promised about the call that met the fault, only about the ones after it
            if o["kind"] == "raise":
                raise ampcheck.OracleFail("converts_to_both_languages", {"file": f["name"], "replica": [lang, how], "exc": o["exc"], "msg": o["msg"]})
            if "bystander_fired" in o:
                stats["bystander_prints_fired" if o["bystander_fired"] else "bystander_turn_after_the_call_ended"] = \
                    stats.get("bystander_prints_fired" if o["bystander_fired"] else "bystander_turn_after_the_call_ended", 0) + 1
            obs[(fi, lang, how)] = o
        stats["clock_reads"], stats["clock_jumps"] = clock.reads, clock.jumps
        exact = clock.jumps == 0 and clock.reads >= stats["conversions"]
        for fi, f in enumerate(flist):
            texts = {}
            for lang in ("cpp", "py"):
                present = [h for h in ("print", "ret", "cli") if (fi, lang, h) in obs]
                if not present:
                    continue
                # a string-returning call prints nothing itself; what another thread printed meanwhile stays on stdout
                foreign = BYSTANDER_LINE + "\n" if ("ret" in present and obs[(fi, lang, "ret")].get("bystander_fired")) else ""
                if ("ret" in present) and obs[(fi, lang, "ret")]["stdout"] != foreign:
                    raise ampcheck.OracleFail("returned_text_is_the_printed_text",
                                              {"file": f["name"], "language": lang, "what": "ret_output=True wrote to stdout",
                                               "stdout": obs[(fi, lang, "ret")]["stdout"][:300]})
                for h in present:
                    if h != "ret" and obs[(fi, lang, h)]["returned"] is not None:
                        raise ampcheck.OracleFail("returned_text_is_the_printed_text", {"file": f["name"], "language": lang, "what": f"{h} call returned a value"})
                got = {h: op_text(obs[(fi, lang, h)]) for h in present}
                base = present[0]
                for h in present[1:]:
                    stats["replicas_compared"] += 1
                    a_, b_ = got[base], got[h]
                    # exact (timestamps included) only if the simulated clock stood still and every conversion read it
                    same = (a_ == b_) if exact else (strip_timestamp(a_) == strip_timestamp(b_) and a_.count("\n") == b_.count("\n"))
                    if not same:
                        la, lb = a_.split("\n"), b_.split("\n")
                        k = next((i for i, (x, y) in enumerate(zip(la, lb)) if x != y and not x.startswith("Generated on")), min(len(la), len(lb)))
                        raise ampcheck.OracleFail("returned_text_is_the_printed_text",
                                                  {"file": f["name"], "language": lang, "replicas": [base, h], "first_differing_line": k,
                                                   base: la[k] if k < len(la) else "<end>", h: lb[k] if k < len(lb) else "<end>",
                                                   "lengths": [len(la), len(lb)]})
                texts[lang] = got["ret"] if "ret" in got else got[present[0]]
            allow = allowed_missing(f["text"])
            py_rec = cpp_rec = None
            if "py" in texts:
                ns, injected = ampcheck.exec_python(texts["py"], allow)
                stats["precondition_unmet"] += len(injected)
                py_rec = ampcheck.python_record(ns)
                if not py_rec["decayinfo_amplitudes_assigned"]:
                    raise ampcheck.OracleFail("python_output_runs_against_goofit_api", {"error": "DK3P_DI.amplitudes was never assigned the amplitude list"})
                ampcheck.coefficient_names_distinct(py_rec, "py")
            if "cpp" in texts:
                cpp_rec = ampcheck.cpp_record(texts["cpp"])
                ampcheck.cpp_declared_before_use(cpp_rec, allow)
                ampcheck.coefficient_names_distinct(cpp_rec, "cpp")
            if py_rec and cpp_rec:
                if allow:  # symbols injected on the Python side have no counterpart to compare
                    for a_ in py_rec["amplitudes"] + cpp_rec["amplitudes"]:
                        for l in a_["lineshapes"]:
                            l["args"] = ["<undefined by input>" if x in allow else x for x in l["args"]]
                    py_rec["parameters"] = [p_ for p_ in py_rec["parameters"] if p_["var"] not in allow]
                ampcheck.compare_records(cpp_rec, py_rec)
                stats["amplitudes"] += len(py_rec["amplitudes"])
                stats["lineshapes"] += sum(len(a_["lineshapes"]) for a_ in py_rec["amplitudes"])
                stats["spin_factors"] += sum(len(a_["spin_factors"]) for a_ in py_rec["amplitudes"])
                stats["parameters"] += len(py_rec["parameters"])
                stats["arrays"] += len(py_rec["arrays"])
                ls_kinds.update(l["kind"] for a_ in py_rec["amplitudes"] for l in a_["lineshapes"])
                sf_kinds.update(s_[0] for a_ in py_rec["amplitudes"] for s_ in a_["spin_factors"])
    except ampcheck.OracleFail as e:
        sig = {"check": e.check}
        if e.check == "converts_to_both_languages":
            sig["exc"] = e.detail.get("exc")
        if e.check == "languages_describe_same_model":
            sig["what"] = e.detail.get("what")
        out.update(verdict="violation", signature=sig, detail=e.detail)
    out["lineshape_kinds"], out["spin_kinds"] = sorted(ls_kinds), sorted(sf_kinds)
    out["abstract"] = [[fi, *REPLICAS[i]] for fi, i in order] + [["jumps", clock.jumps]]
    out["log_digest"] = hashlib.sha256(json.dumps([out.get("signature"), stats, sorted((str(k), hashlib.sha256((op_text(v) or "").encode()).hexdigest())
                                                                                        for k, v in obs.items())], sort_keys=True).encode()).hexdigest()
    # the same, insensitive to what the property allows to vary with the interpreter's hash seed
    out["log_digest_normalised"] = hashlib.sha256(json.dumps([out.get("signature"), stats, sorted(
        (str(k), hashlib.sha256(json.dumps(normalise_text(op_text(v) or ""), sort_keys=True).encode()).hexdigest()) for k, v in obs.items())],
        sort_keys=True).encode()).hexdigest()
    return out


def c19_candidates(case: dict):
    flist = case["files"] if "files" in case else [case["file"]]
    order = case.get("order")
    if order is None:
        order = [[0, i] for i in range(6)]
    order = [[0, o] if isinstance(o, int) else list(o) for o in order]
    base = {k: v for k, v in case.items() if k != "file"}
    base["files"], base["order"] = flist, order
    if case.get("clock"):
        yield {**base, "clock": []}
    for k in ("wfilter", "table_fault_before", "bystander"):
        if case.get(k) is not None:
            yield {kk: vv for kk, vv in base.items() if kk != k}
    # a whole file out of the session
    if len(flist) > 1:
        for fi in range(len(flist)):
            new_order = [[a - (1 if a > fi else 0), b] for a, b in order if a != fi]
            if new_order:
                yield {**base, "files": flist[:fi] + flist[fi + 1 :], "order": new_order}
    if len(order) > 1:
        for i in range(len(order)):
            yield {**base, "order": order[:i] + order[i + 1 :]}
    for fi, f in enumerate(flist):
        lines = f["text"].split("\n")
        n = len(lines)
        size = n // 2
        while size >= 1:
            for start in range(0, n, size):
                new = lines[:start] + lines[start + size :]
                if len(new) < n and any(x.startswith("EventType") for x in new):
                    yield {**base, "files": flist[:fi] + [{**f, "text": "\n".join(new)}] + flist[fi + 1 :]}
            size //= 2


# ------------------------------------------------------------------ C20: histories
FAULT_OPS = ("interrupt", "arm_table_fault")
KILL_TARGETS = ["read_ampgen", "from_matched_line", "expand_lines", "particle_from_string_name", "particle_list_from_string_name",
                "_from_group_dict_list", "decay", "cplx_decay_line", "variable", "constant", "make_intro", "make_pars", "strip_pararray",
                "to_goofit", "make_spinfactor", "make_linefactor", "make_lineshape", "make_amplitude", "list_structure", "spindetails",
                "ampgen2goofit", "ampgen2goofitpy"]


def op_kind(op: dict) -> str:
    if op["op"] == "arm_table_fault":
        return "arm_table_fault"
    if op["op"] == "interrupt":
        return "interrupt:" + op_kind(op["inner"])
    if op["op"] == "read":
        return f"read:{op['cls']}:{op.get('by', 'file')}"
    return f"convert:{op['lang']}:{'cli' if op.get('via') == 'cli' else ('ret' if op.get('ret') else 'print')}"


def op_key(op: dict) -> str:
    if op["op"] == "arm_table_fault":
        return "arm_table_fault"
    if op["op"] == "interrupt":
        return f"interrupt[{op.get('target', '')}{op['k']}{'m' + str(op['after_mutation']) if op.get('after_mutation') else ''}]:" + op_key(op["inner"])
    return op_kind(op) + "@" + op["file"] + ("<-" + op["content"] if op.get("content") else "")


def gen_history(rng: random.Random, pool: list, cfg: dict | None = None) -> dict:
    cfg = cfg or {}
    n = rng.randint(2, cfg.get("max_ops", 5))
    ops = []
    # files carrying the coherent-sum option raise the same AttributeError everywhere (finding F7): keep them rare
    plain = [i for i in range(len(pool)) if "cartesian_option" not in (pool[i].get("tags") or [])] or list(range(len(pool)))
    by_size = sorted(plain, key=lambda i: -len(pool[i].get("resonances", [])))
    last_file, last_cls = None, None
    for k in range(n):
        # bias: different file than the previous op; richer files first (residue shows when a poorer file follows)
        choices = [i for i in (plain if rng.random() < 0.85 else range(len(pool))) if i != last_file] or list(range(len(pool)))
        if rng.random() < 0.5:
            pos = min(len(by_size) - 1, int(abs(rng.gauss(0, 1)) + k * 0.7))
            fi = by_size[pos] if by_size[pos] in choices else rng.choice(choices)
        else:
            fi = rng.choice(choices)
        last_file = fi
        is_last = k == n - 1
        if rng.random() < (0.75 if is_last else 0.5):
            op = {"op": "convert", "lang": rng.choice(["cpp", "py"]), "file": pool[fi]["name"], "ret": rng.random() < 0.8}
            cls = "GooFitChain" if op["lang"] == "cpp" else "GooFitPyChain"
        else:
            cls = rng.choice([c for c in READERS if c != last_cls] or list(READERS))
            op = {"op": "read", "cls": cls, "file": pool[fi]["name"], "by": rng.choice(["file", "text"])}
        last_cls = cls
        ops.append(op)
    twins = [(f["twin_of"], f["name"]) for f in pool if f.get("twin_of")]
    if twins and len(ops) >= 2 and rng.random() < cfg.get("p_twins", 0.3):
        # the last two calls meet a file and its twin (the same decay lines under a differently ordered EventType line)
        a, b = rng.choice(twins)
        if rng.random() < 0.5:
            a, b = b, a
        ops[-2]["file"], ops[-1]["file"] = a, b
        if ops[-1]["op"] == "convert" and ops[-2]["op"] == "convert":
            ops[-2]["lang"] = ops[-1]["lang"]
    if rng.random() < cfg.get("p_shared_name", 0.3):
        # one path, rewritten between calls: every call names the same file, whose content is another pool file each time
        for op in ops:
            op["content"] = op["file"]
            op["file"] = "model.opts"
    # faults: some of the earlier calls are killed part-way (a later call must not see what they left behind)
    p_int = cfg.get("p_interrupt", 0.3)
    cart = [f["name"] for f in pool if "cartesian_option" in (f.get("tags") or [])]
    for i in range(len(ops) - 1):
        if rng.random() < p_int:
            inner = dict(ops[i])
            if cart and rng.random() < 0.5:
                # a kill is most interesting inside the read that flips a class-wide switch (the coherent-sum option)
                inner["content" if inner.get("content") else "file"] = rng.choice(cart)
            # a read/convert runs through 14-22 thousand line events of the package (measured): half of the kill points are
            # uniform over that range, half log-uniform so that the early phases (option handling, transformer) are hit too
            k = rng.randint(1, 16000) if rng.random() < 0.5 else int(10 ** rng.uniform(0.0, 4.3))
            ops[i] = {"op": "interrupt", "inner": inner, "k": k}
            r_ = rng.random()
            if r_ < 0.3:
                # placement by phase: the k-th line event inside one named function of the reader / generator
                ops[i]["target"] = rng.choice(KILL_TARGETS)
                ops[i]["k"] = int(10 ** rng.uniform(0.0, 2.3))
            elif r_ < 0.7:
                # placement by in-flight state: right after the j-th change of process-level state made by the call
                ops[i]["after_mutation"] = rng.randint(1, 48)  # a read makes about 40 such changes (measured)
    # ... and sometimes the one-time load of the special-particle table meets a transient I/O error
    if rng.random() < cfg.get("p_table_fault", 0.15):
        ops.insert(rng.randrange(0, len(ops) - 1), {"op": "arm_table_fault"})
    r = rng.random()
    clock = [] if r < 0.6 else [rng.choice([0, 2.5, -3600.0, 86400.0]) for _ in range(n)]
    return {"ops": ops, "clock": clock}


def strip_obs_timestamp(o: dict) -> dict:
    if o.get("kind") != "text":
        return o
    return {**o, "returned": strip_timestamp(o["returned"]) if o.get("returned") is not None else None, "stdout": strip_timestamp(o.get("stdout") or "")}


def compare_obs(a: dict, b: dict):
    """normalised equality of two observations of the same call; returns None or a difference"""
    if a["kind"] != b["kind"]:
        return {"at": "kind", "a": a["kind"] + (":" + a.get("exc", "") if a["kind"] == "raise" else ""), "b": b["kind"] + (":" + b.get("exc", "") if b["kind"] == "raise" else "")}
    return first_diff(normalise_obs(a), normalise_obs(b))


def run_history_case(case: dict) -> dict:
    """Self-contained replay of a C20 history violation: pristine replicas are
    forked from this (still untouched) process, then the history runs here."""
    from simkit.forkcall import fork_call

    pool = case["pool"]
    ops = case["ops"]
    out = {"verdict": "ok"}
    if case.get("mode") == "twice":
        a = fork_call(run_ops, {"pool": pool, "ops": ops, "clock": case.get("clock")}, limit_s=case.get("limit_s", 900))
        b = fork_call(run_ops, {"pool": pool, "ops": ops, "clock": case.get("clock")}, limit_s=case.get("limit_s", 900))
        seam = a["clock_reads"] >= sum(1 for o in ops if o["op"] == "convert")  # interrupted conversions may or may not have read it
        for i, (x, y) in enumerate(zip(a["obs"], b["obs"])):
            if not seam:  # the converters did not read the simulated clock: timestamps are real time, outside the property
                x, y = strip_obs_timestamp(x), strip_obs_timestamp(y)
            if x != y:
                out.update(verdict="violation", signature={"check": "exact_reproducibility"}, detail={"op_index": i, "op": ops[i], "diff": first_diff(x, y)})
                break
        return out
    refs = [None if op["op"] in FAULT_OPS else fork_call(run_ops, {"pool": pool, "ops": [op]}, limit_s=case.get("limit_s", 900))["obs"][0]
            for op in ops]
    hist = run_ops({"pool": pool, "ops": ops, "clock": case.get("clock")})["obs"]
    for i, (h, r) in enumerate(zip(hist, refs)):
        if r is None or h.get("faulted"):
            continue
        d = compare_obs(r, h)
        if d is not None:
            out.update(verdict="violation", signature={"check": "history_independence", "kind": op_kind(ops[i]).rsplit(":", 1)[0]},
                       detail={"op_index": i, "op": ops[i], "history_before": [op_key(o) for o in ops[:i]], "fresh_vs_history": d})
            break
    return out


def c20_candidates(case: dict):
    ops = case["ops"]
    # drop earlier operations (keep the last one: it is the one that shows the residue)
    for i in range(len(ops) - 1):
        yield {**case, "ops": ops[:i] + ops[i + 1 :], "clock": []}
    if len(ops) > 1:
        yield {**case, "ops": ops[:-1], "clock": []}
    if case.get("clock"):
        yield {**case, "clock": []}
    for i, o in enumerate(ops):
        if o["op"] == "interrupt":
            yield {**case, "ops": ops[:i] + [o["inner"]] + ops[i + 1 :]}
    flat = [o["inner"] if o["op"] == "interrupt" else o for o in ops if o["op"] != "arm_table_fault"]
    used = {o["file"] for o in flat} | {o["content"] for o in flat if o.get("content")}
    pool = case["pool"]
    if any(f["name"] not in used for f in pool):
        yield {**case, "pool": [f for f in pool if f["name"] in used]}
    # reads instead of conversions for the earlier steps, plain variants
    for i, o in enumerate(ops[:-1]):
        if o["op"] == "convert":
            yield {**case, "ops": ops[:i] + [{**({"content": o["content"]} if o.get("content") else {}), "op": "read", "cls": "GooFitChain" if o["lang"] == "cpp" else "GooFitPyChain", "file": o["file"], "by": "file"}] + ops[i + 1 :]}
    # smaller files: drop lines of each pool file
    for fi, f in enumerate(pool):
        lines = f["text"].split("\n")
        n = len(lines)
        size = n // 2
        while size >= 1:
            for start in range(0, n, size):
                new = lines[:start] + lines[start + size :]
                if len(new) < n and any(x.startswith("EventType") for x in new):
                    yield {**case, "pool": pool[:fi] + [{**f, "text": "\n".join(new)}] + pool[fi + 1 :]}
            size //= 2
