"""viewer world (C15): a session of DecayChainViewer constructions in one
process; the shared module-level id counter is the state.

Real code: DecayChainViewer, graphviz (Python), the `dot` binary, and the
parser / DecayChain that produce the chain dictionaries.
Reference model: walks the chain dictionary and predicts the graph as a rooted,
labelled tree; the DOT source is read tolerantly and compared with it up to
renaming of node ids and reordering of statements."""

from __future__ import annotations

import hashlib
import json
import random
import re
import subprocess
import warnings

from worlds import decgen
from worlds.dechist import tree_size
from worlds.fmtworld import CHAINS

MAX_NODES = 250


# ------------------------------------------------------------------ reference model
_maps = {}


def cell_text(name: str) -> str:
    """Expected cell text, through the particle package's own name maps (trusted)."""
    if not _maps:
        from particle import latex_to_html_name
        from particle.converters.bimap import DirectionalMaps

        e2l, _ = DirectionalMaps("EvtGenName", "LaTexName")
        _maps["e2l"], _maps["l2h"] = e2l, latex_to_html_name
    try:
        return _maps["l2h"](_maps["e2l"][name])
    except Exception:
        return name


def model_tree(chain: dict):
    """-> (root cells, [ (slot|None, bf, cells, children) ... ]) with children sorted canonically"""
    ((mother, modes),) = chain.items()

    def lines(modes, slot):
        out = []
        for mode in modes:
            fs = mode["fs"]
            names = [next(iter(p)) if isinstance(p, dict) else p for p in fs]
            kids = []
            for i, p in enumerate(fs):
                if isinstance(p, dict):
                    ((_, sub),) = p.items()
                    kids.extend(lines(sub, i))
            out.append([slot, float(mode["bf"]), [cell_text(n) for n in names], _canon(kids)])
        return out

    return [[cell_text(mother)], _canon(lines(modes, None))]


def _canon(children):
    return sorted(children, key=lambda c: json.dumps(c, sort_keys=True))


def count_nodes(tree) -> int:
    def rec(children):
        return sum(1 + rec(c[3]) for c in children)

    return 1 + rec(tree[1])


# ------------------------------------------------------------------ tolerant DOT reader
_ID = r'("(?:[^"\\]|\\.)*"|[A-Za-z0-9_.\-]+)'
_EDGE = re.compile(r"^\s*" + _ID + r"(?::(\w+))?(?::\w+)?\s*->\s*" + _ID + r"(?::(\w+))?(?::\w+)?\s*(?:\[(.*)\])?\s*;?\s*$")
_NODE = re.compile(r"^\s*" + _ID + r"\s*\[(.*)\]\s*;?\s*$")
_CELL = re.compile(r"<TD([^>]*)>(.*?)</TD>", re.S | re.I)
_PORT = re.compile(r'PORT="([^"]*)"', re.I)
_LABEL = re.compile(r'label=("((?:[^"\\]|\\.)*)"|<.*>|[^\s\]]+)', re.S)


class DotReadError(Exception):
    pass


def read_dot(src: str):
    """-> {"nodes": {id: [(port|None, text), ...]}, "edges": [(tail, tail_port|None, head, label)], "order": [ids]}"""
    nodes: dict = {}
    order = []
    edges = []
    dup = []
    ignored = 0
    for line in src.splitlines():
        s = line.strip()
        if not s or s.startswith("//") or s.startswith("digraph") or s.startswith("graph ") or s == "}" or s == "{":
            continue
        m = _EDGE.match(line)
        if m:
            tail, tport, head, _hp, attrs = m.groups()
            lab = None
            if attrs:
                lm = _LABEL.search(attrs)
                if lm:
                    lab = lm.group(2) if lm.group(2) is not None else lm.group(1)
            edges.append((tail.strip('"'), tport, head.strip('"'), lab))
            continue
        m = _NODE.match(line)
        if m:
            nid, attrs = m.groups()
            nid = nid.strip('"')
            if nid in ("graph", "node", "edge"):
                continue
            lm = _LABEL.search(attrs)
            label = lm.group(1) if lm else ""
            cells = []
            for attr, text in _CELL.findall(label):
                pm = _PORT.search(attr)
                if text.strip() == "" and not pm:
                    continue  # an empty, port-less cell is padding (e.g. the placeholder of a line without daughters)
                cells.append((pm.group(1) if pm else None, text))
            if nid in nodes:
                dup.append(nid)
            nodes[nid] = cells
            order.append(nid)
            continue
        if "->" in line.split("[", 1)[0]:
            raise DotReadError(f"unreadable edge statement: {line[:120]!r}")
        ignored += 1  # attribute assignments, subgraph/rank statements and the like carry no node or edge
    return {"nodes": nodes, "edges": edges, "order": order, "duplicate_ids": dup, "ignored_statements": ignored}


def graph_tree(g):
    """Rooted tree in the model's shape from a parsed graph, or raise DotReadError."""
    nodes, edges = g["nodes"], g["edges"]
    heads = {}
    for tail, tport, head, lab in edges:
        for x in (tail, head):
            if x not in nodes:
                raise DotReadError(f"edge refers to undeclared node {x!r}")
        heads.setdefault(head, []).append((tail, tport, lab))
    roots = [n for n in nodes if n not in heads]
    if len(roots) != 1:
        raise DotReadError(f"expected exactly one node without incoming edge, found {roots[:5]}")
    root = roots[0]
    for h, ins in heads.items():
        if len(ins) != 1:
            raise DotReadError(f"node {h!r} has {len(ins)} incoming edges")
    kids: dict = {}
    for tail, tport, head, lab in edges:
        kids.setdefault(tail, []).append((tport, head, lab))
    seen = set()

    def slot_of(node, port):
        if port is None:
            return None
        for i, (p, _) in enumerate(nodes[node]):
            if p == port:
                return i
        raise DotReadError(f"edge leaves port {port!r} which node {node!r} does not have")

    def rec(n, is_root):
        if n in seen:
            raise DotReadError("cycle in graph")
        seen.add(n)
        out = []
        for tport, head, lab in kids.get(n, []):
            slot = None if is_root else slot_of(n, tport)
            try:
                bf = float(lab)
            except (TypeError, ValueError):
                bf = f"unparseable:{lab!r}"
            out.append([slot, bf, [t for _, t in nodes[head]], rec(head, False)])
        return _canon(out)

    tree = [[t for _, t in nodes[root]], rec(root, True)]
    if len(seen) != len(nodes):
        raise DotReadError(f"{len(nodes) - len(seen)} node(s) not reachable from the root")
    return tree, root


# ------------------------------------------------------------------ chains
def class_chain_dict(ci: int):
    from decaylanguage import DecayChain, DecayMode

    mother, modes = CHAINS[ci]
    return DecayChain(mother, {m: DecayMode(bf, list(ds), model="PHSP") for bf, m, ds in modes}).to_dict()


def share_equal_parts(chain) -> int:
    """The caller wrote the chain dictionary by hand and re-used one object wherever the same decaying
    daughter (with the same table) occurs again: equal {name: table} entries become the very same dict.
    The value of the chain dictionary is unchanged.  Returns the number of re-used entries."""
    memo: dict = {}
    n = 0

    def walk(modes):
        nonlocal n
        for mode in modes:
            fs = mode.get("fs", [])
            for i, p in enumerate(fs):
                if isinstance(p, dict):
                    ((_, sub),) = p.items()
                    walk(sub)
                    k = json.dumps(p, sort_keys=True, default=repr)
                    if k in memo and memo[k] is not p:
                        fs[i] = memo[k]
                        n += 1
                    else:
                        memo[k] = p

    ((_, modes),) = chain.items()
    walk(modes)
    return n


def damage(chain, rng: random.Random):
    """Break one entry somewhere in the chain so that construction raises part-way."""
    spots = []

    def walk(modes):
        for mode in modes:
            spots.append(mode)
            for p in mode["fs"]:
                if isinstance(p, dict):
                    ((_, sub),) = p.items()
                    walk(sub)

    ((_, modes),) = chain.items()
    walk(modes)
    if not spots:
        return False
    victim = rng.choice(spots[len(spots) // 2 :] or spots)
    how = rng.choice(["no_bf", "bad_fs_item", "no_fs"])
    if how == "no_bf":
        victim.pop("bf", None)
    elif how == "no_fs":
        victim.pop("fs", None)
    else:
        victim["fs"] = [*victim["fs"], 3.14]
    return True


# ------------------------------------------------------------------ session
class Violation(Exception):
    def __init__(self, check, detail):
        super().__init__(check)
        self.check, self.detail = check, detail


def run_session(case: dict) -> dict:
    from decaylanguage import DecayChainViewer, DecFileParser

    stats = {"builds": 0, "failed_builds": 0, "dot_runs": 0, "nodes": 0, "edges": 0, "skipped_big": 0, "bystanders": 0,
             "graphs_with_repeated_decaying_daughter": 0, "graphs_with_empty_table": 0, "max_depth": 0}
    abstract = []
    out = {"verdict": "ok", "stats": stats}
    parsers = {}
    built = []  # (source text, set of non-root ids)
    all_ids: dict = {}
    shapes = set()
    try:
        def parser(di):
            if di not in parsers:
                p = DecFileParser.from_string(decgen.canonical_text(case["docs"][di]))
                with warnings.catch_warnings():
                    warnings.simplefilter("ignore")
                    try:
                        p.parse()
                    except Exception:
                        p = None  # a generated document that does not parse offers no chains (counted as skipped builds)
                        stats["unparseable_documents"] = stats.get("unparseable_documents", 0) + 1
                parsers[di] = p
            return parsers[di]

        def chain_for(op):
            if op["src"] == "class":
                return class_chain_dict(op["c"])
            p = parser(op["doc"])
            if p is None or tree_size(p, op["m"], {}) > MAX_NODES:
                return None
            try:
                return p.build_decay_chains(op["m"], stable_particles=op.get("stable", []))
            except Exception:
                return None

        for step, op in enumerate(case["ops"]):
            k = op["op"]
            if k == "build":
                chain = chain_for(op)
                if chain is None:
                    stats["skipped_big"] += 1
                    abstract.append((k, "skipped"))
                    continue
                if op.get("shared") and share_equal_parts(chain):
                    stats["builds_from_a_chain_with_reused_objects"] = stats.get("builds_from_a_chain_with_reused_objects", 0) + 1
                want = model_tree(chain)
                if op.get("thread"):
                    # the caller builds this graph from a worker thread (started and joined: no interleaving, only another thread identity)
                    import threading

                    box = {}

                    def work():
                        try:
                            box["v"] = DecayChainViewer(chain)
                        except BaseException as e:  # noqa: BLE001
                            box["e"] = e

                    t = threading.Thread(target=work, name=f"sim-worker-{step}")
                    t.start()
                    t.join()
                    if "e" in box:
                        raise box["e"]
                    v = box["v"]
                    stats["builds_in_worker_thread"] = stats.get("builds_in_worker_thread", 0) + 1
                elif op.get("subclass"):
                    # the user derives from the viewer (e.g. to restyle it); such viewers belong to the same session
                    if "sub" not in parsers:
                        parsers["sub"] = type("RestyledViewer", (DecayChainViewer,), {"__slots__": ()})
                    v = parsers["sub"](chain)
                    stats["builds_by_a_user_subclass"] = stats.get("builds_by_a_user_subclass", 0) + 1
                else:
                    v = DecayChainViewer(chain)
                if op.get("kill_to_string"):
                    # the first request for the DOT source is killed part-way; the caller simply asks again
                    from simkit.inject import Injector, SimFault

                    inj = Injector(int(op["kill_to_string"]))
                    try:
                        inj.run(v.to_string)
                    except SimFault:
                        stats["to_string_interrupted"] = stats.get("to_string_interrupted", 0) + 1
                src = v.to_string()
                stats["builds"] += 1
                try:
                    g = read_dot(src)
                    got, root = graph_tree(g)
                except DotReadError as e:
                    raise Violation("graph_is_a_labelled_tree", {"step": step, "error": str(e), "source": src[:1500]}) from None
                if g["duplicate_ids"]:
                    raise Violation("ids_unique_within_graph", {"step": step, "duplicates": g["duplicate_ids"][:5]})
                if got != want:
                    raise Violation("graph_equals_model", {"step": step, "op": op, "diff": _tree_diff(want, got)})
                ids = set(g["nodes"]) - {root}
                clash = sorted(i for i in ids if i in all_ids)
                if clash:
                    raise Violation("ids_unique_across_session", {"step": step, "ids": clash[:5], "first_used_in_graph": all_ids[clash[0]], "this_graph": len(built)})
                for i in ids:
                    all_ids[i] = len(built)
                built.append(src)
                stats["nodes"] += len(g["nodes"])
                stats["edges"] += len(g["edges"])
                d = _depth(want)
                stats["max_depth"] = max(stats["max_depth"], d)
                if _has_repeat(chain):
                    stats["graphs_with_repeated_decaying_daughter"] += 1
                if _has_empty(chain):
                    stats["graphs_with_empty_table"] += 1
                shapes.add(hashlib.sha256(json.dumps(_shape(want)).encode()).hexdigest()[:12])
                abstract.append((k, op["src"], min(d, 5), min(len(g["nodes"]), 20)))
            elif k == "build_fail":
                chain = chain_for(op)
                if chain is None or not damage(chain, random.Random(op["seed"])):
                    abstract.append((k, "skipped"))
                    continue
                try:
                    DecayChainViewer(chain)
                    abstract.append((k, "survived"))
                except Exception as e:
                    stats["failed_builds"] += 1
                    abstract.append((k, type(e).__name__))
            elif k == "build_interrupt":
                chain = chain_for(op)
                if chain is None:
                    abstract.append((k, "skipped"))
                    continue
                from simkit.inject import Injector, SimFault

                inj = Injector(int(op["k"]))
                try:
                    inj.run(DecayChainViewer, chain)
                    abstract.append((k, "not_reached"))
                except SimFault:
                    stats["failed_builds"] += 1
                    stats["interrupted_builds"] = stats.get("interrupted_builds", 0) + 1
                    abstract.append((k, "interrupted"))
            elif k == "dot":
                if not built:
                    abstract.append((k, "nothing"))
                    continue
                src = built[op["g"] % len(built)]
                r = subprocess.run(["dot", "-Tplain"], input=src.encode(), capture_output=True, timeout=60)
                stats["dot_runs"] += 1
                if r.returncode != 0 or not r.stdout.startswith(b"graph "):
                    raise Violation("accepted_by_graphviz", {"step": step, "exit": r.returncode, "stderr": r.stderr.decode(errors="replace")[:400], "source": src[:1500]})
                n_nodes = sum(1 for ln in r.stdout.splitlines() if ln.startswith(b"node "))
                n_decl = len(read_dot(src)["nodes"])
                if n_nodes != n_decl:
                    raise Violation("accepted_by_graphviz", {"step": step, "dot_nodes": n_nodes, "declared_nodes": n_decl})
                abstract.append((k, "ok"))
            elif k == "bystander":
                stats["bystanders"] += 1
                if op["what"] == "format":
                    from decaylanguage.utils import DescriptorFormat

                    from worlds.fmtworld import real_chains

                    with DescriptorFormat("{mother} => {daughters}", "[{mother} => {daughters}]"):
                        real_chains()[op.get("c", 0) % 3].to_string()
                elif case["docs"]:
                    p = parser(op.get("doc", 0) % len(case["docs"]))
                    if p is not None:
                        p.list_decay_mother_names()
                        p.dict_aliases()
                abstract.append((k, op["what"]))
    except Violation as v:
        out.update(verdict="violation", signature={"check": v.check}, detail=v.detail)
    out["abstract_hash"] = hashlib.sha256(json.dumps(abstract).encode()).hexdigest()[:16]
    out["graph_shapes"] = sorted(shapes)
    out["nontrivial"] = stats["builds"] >= 2 or stats["failed_builds"] >= 1
    out["log_digest"] = hashlib.sha256(json.dumps([abstract, stats, sorted(all_ids)], sort_keys=True).encode()).hexdigest()
    return out


def _depth(tree):
    def rec(children):
        return 0 if not children else 1 + max(rec(c[3]) for c in children)

    return rec(tree[1])


def _shape(tree):
    def rec(children):
        return sorted([[c[0], len(c[2]), rec(c[3])] for c in children], key=json.dumps)

    return rec(tree[1])


def _has_repeat(chain):
    def walk(modes):
        for mode in modes:
            keys = [next(iter(p)) for p in mode["fs"] if isinstance(p, dict)]
            if len(keys) != len(set(keys)):
                return True
            for p in mode["fs"]:
                if isinstance(p, dict) and walk(next(iter(p.values()))):
                    return True
        return False

    return walk(next(iter(chain.values())))


def _has_empty(chain):
    def walk(modes):
        for mode in modes:
            for p in mode["fs"]:
                if isinstance(p, dict):
                    sub = next(iter(p.values()))
                    if not sub or walk(sub):
                        return True
        return False

    return walk(next(iter(chain.values())))


def _tree_diff(want, got):
    if want[0] != got[0]:
        return {"at": "root cells", "want": want[0], "got": got[0]}

    def rec(w, g, path):
        if len(w) != len(g):
            return {"at": path, "want_lines": len(w), "got_lines": len(g),
                    "want": [[c[0], c[1], c[2]] for c in w][:6], "got": [[c[0], c[1], c[2]] for c in g][:6]}
        for i, (a, b) in enumerate(zip(w, g)):
            if a[:3] != b[:3]:
                return {"at": path + [i], "want": a[:3], "got": b[:3]}
            d = rec(a[3], b[3], path + [i])
            if d:
                return d
        return None

    return rec(want[1], got[1], [])


# ------------------------------------------------------------------ seeded scheduler
def gen_session(rng: random.Random, cfg: dict | None = None) -> dict:
    cfg = cfg or {}
    docs = [decgen.generate(rng, {"max_tables": rng.choice([3, 5, 7])}) for _ in range(rng.choice([1, 1, 2]))]
    n = rng.randint(2, cfg.get("max_builds", 12))
    p_dot = cfg.get("p_dot", 0.05)
    p_fail = rng.choice([0.0, 0.15, 0.3])
    p_thread = rng.choice([0.0, 0.0, 0.3])
    p_sub = rng.choice([0.0, 0.0, 0.25])
    p_shared = rng.choice([0.0, 0.3, 0.6])
    ops = []

    def source():
        if rng.random() < 0.15:
            return {"src": "class", "c": rng.randrange(len(CHAINS))}
        di = rng.randrange(len(docs))
        meta = docs[di]["meta"]
        ms = list(meta["mothers"]) + [c[0] for c in meta["copies"]] + list(meta["cdecays"])
        # later tables have the deeper chains
        m = ms[-1 - int(abs(rng.gauss(0, 1.2))) % len(ms)] if rng.random() < 0.6 else rng.choice(ms)
        stable = [] if rng.random() < 0.7 else rng.sample(ms, min(len(ms), rng.randint(1, 2)))
        return {"src": "dec", "doc": di, "m": m, "stable": stable}

    builds = 0
    while builds < n:
        r = rng.random()
        if r < p_fail:
            if rng.random() < 0.4:
                ops.append({"op": "build_interrupt", **source(), "k": int(10 ** rng.uniform(0.5, 3.0))})
            else:
                ops.append({"op": "build_fail", **source(), "seed": rng.getrandbits(32)})
        elif r < p_fail + p_dot and builds:
            ops.append({"op": "dot", "g": rng.randrange(builds)})
        elif r < p_fail + p_dot + 0.1:
            ops.append({"op": "bystander", "what": rng.choice(["format", "query"]), "c": rng.randrange(3), "doc": rng.randrange(len(docs))})
        else:
            b = {"op": "build", **source()}
            if rng.random() < p_thread:
                b["thread"] = True
            elif rng.random() < p_sub:
                b["subclass"] = True
            if rng.random() < p_shared:
                b["shared"] = True
            if rng.random() < 0.08:
                b["kill_to_string"] = rng.choice([1, 2, 3, rng.randint(4, 60), rng.randint(4, 400)])
            ops.append(b)
            builds += 1
    if rng.random() < p_dot * 4:
        ops.append({"op": "dot", "g": rng.randrange(builds)})
    return {"docs": docs, "ops": ops}


def run_c15(args: dict) -> dict:
    case = args if "ops" in args else gen_session(random.Random(args["seed"]), args.get("cfg"))
    out = run_session(case)
    out["n_ops"] = len(case["ops"])
    if out["verdict"] == "violation" or args.get("return_case"):
        out["case"] = case
    return out


def candidates(case: dict):
    ops = case["ops"]
    n = len(ops)
    size = n // 2
    while size >= 1:
        for start in range(0, n, size):
            new = ops[:start] + ops[start + size :]
            if len(new) < n:
                yield {**case, "ops": new}
        size //= 2
    for i, op in enumerate(ops):
        for flag in ("thread", "kill_to_string", "subclass"):
            if op.get(flag):
                yield {**case, "ops": ops[:i] + [{k: v for k, v in op.items() if k != flag}] + ops[i + 1 :]}
    for i, op in enumerate(ops):
        if op.get("stable"):
            yield {**case, "ops": ops[:i] + [{**op, "stable": []}] + ops[i + 1 :]}
    for di, doc in enumerate(case["docs"]):
        stmts = doc["statements"]
        m = len(stmts)
        size = m // 2
        while size >= 1:
            for start in range(0, m, size):
                new = stmts[:start] + stmts[start + size :]
                if len(new) < m:
                    yield {**case, "docs": case["docs"][:di] + [{**doc, "statements": new}] + case["docs"][di + 1 :]}
            size //= 2
        for si, st in enumerate(stmts):
            if st["kind"] == "decay" and len(st["lines"]) > 2:
                for li in range(1, len(st["lines"]) - 1):
                    st2 = {**st, "lines": st["lines"][:li] + st["lines"][li + 1 :]}
                    yield {**case, "docs": case["docs"][:di] + [{**doc, "statements": stmts[:si] + [st2] + stmts[si + 1 :]}] + case["docs"][di + 1 :]}
