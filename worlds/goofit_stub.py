"""A recording stand-in for the `goofit` Python module: the consumer of the
generated Python script.  It exports the API names the generator targets and
remembers every object constructed, so that after exec() the harness can read
the model back as a record and compare it with the record parsed from the C++
text.  It is deliberately permissive about numeric argument counts (2-5
positional arguments for Variable) and strict about names: an unknown symbol is
a NameError/AttributeError exactly as it would be with the real package."""

from __future__ import annotations

import types

SF_NAMES = [
    "DtoPP1_PtoSP2_StoP3P4", "DtoPP1_PtoVP2_VtoP3P4", "DtoV1V2_V1toP1P2_V2toP3P4_S", "DtoV1V2_V1toP1P2_V2toP3P4_P",
    "DtoV1V2_V1toP1P2_V2toP3P4_D", "DtoAP1_AtoVP2_VtoP3P4", "DtoAP1_AtoVP2Dwave_VtoP3P4", "DtoVS_VtoP1P2_StoP3P4",
    "DtoV1P1_V1toV2P2_V2toP3P4", "DtoAP1_AtoSP2_StoP3P4", "DtoTP1_TtoVP2_VtoP3P4", "FF_12_34_L1", "FF_12_34_L2",
    "FF_123_4_L1", "FF_123_4_L2", "ONE",
]
# Invariant-mass index constants.  The generator writes the indices in the order of the decay tree (M_31 for a resonance whose
# daughters sit at positions 3 and 1 of the event type); whether GooFit spells that M_13 is C18's business, so every
# combination of distinct positions is accepted here and the check takes no side.
MASS_INDEX = [f"M_{i}{j}" for i in "1234" for j in "1234" if i != j] + [
    f"M_{i}{j}_{k}" for i in "1234" for j in "1234" for k in "1234" if len({i, j, k}) == 3]


class Const:
    def __init__(self, group, name):
        self.group, self.name = group, name

    def __repr__(self):
        return f"{self.group}.{self.name}"


class _Enum:
    def __init__(self, group, names):
        for n in names:
            setattr(self, n, Const(group, n))


class Variable:
    def __init__(self, name, value, *rest):
        if not isinstance(name, str):
            raise TypeError("Variable name must be a string")
        if len(rest) > 3:
            raise TypeError("Variable takes at most 5 arguments")
        for x in (value, *rest):
            if isinstance(x, bool) or not isinstance(x, (int, float)):
                raise TypeError(f"Variable numeric argument expected, got {x!r}")
        self.name, self.value, self.rest = name, value, rest


class SpinFactor:
    def __init__(self, name, kind, *indices):
        if not isinstance(kind, Const) or kind.group != "SF_4Body":
            raise TypeError("SpinFactor kind must be an SF_4Body constant")
        if len(indices) != 4 or not all(isinstance(i, int) for i in indices):
            raise TypeError("SpinFactor takes four integer indices")
        self.name, self.kind, self.indices = name, kind, indices


class Lineshape:
    def __init__(self, kind, args):
        self.kind, self.args = kind, args


def _ls(kind, nmin, nmax):
    def make(*args):
        if not (nmin <= len(args) <= nmax):
            raise TypeError(f"Lineshapes.{kind} takes {nmin}..{nmax} arguments, got {len(args)}")
        if not isinstance(args[0], str):
            raise TypeError("lineshape name must be a string")
        return Lineshape(kind, args)

    return make


class Amplitude:
    def __init__(self, name, real, imag, lineshapes, spinfactors, nperm):
        if not isinstance(real, Variable) or not isinstance(imag, Variable):
            raise TypeError("Amplitude coefficients must be Variables")
        if not all(isinstance(x, Lineshape) for x in lineshapes) or not all(isinstance(x, SpinFactor) for x in spinfactors):
            raise TypeError("Amplitude takes sequences of Lineshape and SpinFactor")
        self.name, self.real, self.imag = name, real, imag
        self.lineshapes, self.spinfactors, self.nperm = tuple(lineshapes), tuple(spinfactors), nperm


class DecayInfo4:
    def __init__(self):
        self.meson_radius = None
        self.particle_masses = None
        self.amplitudes = None


def make_module() -> types.ModuleType:
    m = types.ModuleType("goofit")
    m.Variable, m.SpinFactor, m.Amplitude, m.DecayInfo4 = Variable, SpinFactor, Amplitude, DecayInfo4
    m.SF_4Body = _Enum("SF_4Body", SF_NAMES)
    m.FF = _Enum("FF", ["One", "BL", "BL_Prime", "BL2"])
    ls = types.SimpleNamespace()
    ls.RBW = _ls("RBW", 6, 7)
    ls.GSpline = _ls("GSpline", 9, 9)
    ls.kMatrix = _ls("kMatrix", 15, 15)
    ls.FOCUS = _ls("FOCUS", 8, 8)
    ls.FocusMod = _Enum("FocusMod", ["Kpi", "KEta", "I32"])
    m.Lineshapes = ls
    names = ["Variable", "SpinFactor", "Amplitude", "DecayInfo4", "SF_4Body", "FF", "Lineshapes"]
    for n in MASS_INDEX:
        setattr(m, n, Const("M", n))
        names.append(n)
    m.__all__ = names
    return m
