"""Deliveries of one logical document: layout edits and file packaging.

make_delivery(doc, dseed, knobs) is a pure function; a replay stores
(doc, dseed, knobs) and the shrinker switches knobs off one at a time, so a
minimised replay names the one edit kind that matters."""

from __future__ import annotations

import random

from worlds.decgen import canon_line, canon_tok

COMMENT_TEXTS = ["comment", " a ; semicolon ; inside", "Decay fake", "Enddecay", "End", "# double", " trailing spaces   ",
                 "1.0 K+ K- PHSP;", "tab\there", ""]
NONASCII = ["über Zerfälle — π⁺π⁻", "ΔΓ/Γ ≈ 0.1 ± 0.02", "注释 comment", "naïve façade",
            # characters that str.splitlines() treats as line ends but a text file and the grammar do not: they are ordinary
            # comment characters (an editor's page break, NEL from a mainframe export, Unicode line/paragraph separators)
            "old table:\x0cDefine junk 1.0", "vt\x0bAlias A B", "fs\x1cgs\x1drs\x1eEnd", "nel\x85Enddecay", "ls\u2028ps\u2029CDecay X"]

KNOB_DEFAULTS = {
    "mode": "files",          # files | string
    "n_files": 1,             # 1..4
    "comments_full": False,
    "comments_trailing": False,
    "nonascii": False,
    "blank_lines": False,
    "indent": False,
    "spacing": False,
    "wrap_params": False,
    "comma_params": False,
    "multi_semicolon": False,
    "final_end": False,
    "end_per_file": False,
    "bom": False,
    "crlf": "none",           # none | all | mixed
    "no_final_newline": False,
    "extra_files": False,     # empty / comment-only files in between
    "chunk": 0,               # raw read size; 0 = whatever the io stack asks for
    "path_flavour": "str",    # str | Path | PathLike
    "fault": None,            # None | "eio" | "vanish" | "interrupt"
    "reparse": False,         # parse() a second time and ask everything again
    "solo_first": False,      # earlier in the same process the caller read one of the files on its own
}
SIM_DIMENSIONS = ("mode", "n_files", "end_per_file", "bom", "crlf", "no_final_newline", "extra_files", "chunk", "path_flavour", "fault", "final_end", "reparse", "solo_first")


def draw_knobs(rng: random.Random, faults: bool = False, raw: bool = False) -> dict:
    k = dict(KNOB_DEFAULTS)
    style = rng.random()
    if style < 0.08 and not faults:
        return k  # plain: one LF file, canonical layout
    p = rng.choice([0.15, 0.3, 0.5, 0.8])  # swarm: density of edits differs per delivery
    for name in ("comments_full", "comments_trailing", "nonascii", "blank_lines", "indent", "spacing", "wrap_params",
                 "comma_params", "multi_semicolon", "final_end", "end_per_file", "bom", "no_final_newline", "extra_files"):
        k[name] = rng.random() < p
    k["crlf"] = rng.choice(["none", "none", "all", "mixed"])
    k["mode"] = "string" if rng.random() < 0.2 else "files"
    k["n_files"] = rng.choice([1, 1, 2, 2, 3, 4])
    k["chunk"] = rng.choice([0, 0, 1, 2, 3, 7, 16, 64])
    k["path_flavour"] = rng.choice(["str", "Path", "PathLike"])
    k["reparse"] = rng.random() < 0.15
    k["solo_first"] = rng.random() < 0.25
    if raw:
        k["wrap_params"] = k["comma_params"] = k["spacing"] = False
    if faults:
        k["fault"] = rng.choice(["eio", "vanish", "interrupt"])
        k["mode"] = "files"
    return k


def _ws(rng, lo=1, hi=3):
    return "".join(rng.choice(" \t") if rng.random() < 0.3 else " " for _ in range(rng.randint(lo, hi)))


def _comment(rng, knobs):
    if knobs["nonascii"] and rng.random() < 0.5:
        return "#" + rng.choice(NONASCII)
    return "#" + rng.choice(COMMENT_TEXTS)


def render_line(line: dict, rng: random.Random, knobs: dict) -> list[str]:
    """One logical line -> one or more physical lines (no terminators)."""
    if "raw" in line:
        s = line["raw"]
        code = s.split("#", 1)[0]
        if knobs["multi_semicolon"] and "#" not in s and code.rstrip().endswith(";") and rng.random() < 0.5:
            s = s.rstrip() + rng.choice([";", " ;", ";;"])
        if knobs["indent"] and rng.random() < 0.5:
            s = _ws(rng, 1, 6) + s
        if knobs["comments_trailing"] and "#" not in s and rng.random() < 0.4:
            s = s + _ws(rng, 0, 2) + _comment(rng, knobs)
        return [s]
    sp = (lambda: _ws(rng, 1, 3)) if knobs["spacing"] else (lambda: " ")
    tight = (lambda: _ws(rng, 0, 2)) if knobs["spacing"] else (lambda: "")
    out_lines = []
    cur = _ws(rng, 0, 8) if knobs["indent"] and rng.random() < 0.7 else ""
    first = True
    for tok in line["pre"]:
        if not first:
            cur += sp()
        first = False
        if isinstance(tok, list):
            cur += tight().join(tok) if knobs["spacing"] else "".join(tok)
        else:
            cur += tok
    params = line["params"] or []
    wrap = knobs["wrap_params"] and len(params) >= 1 and rng.random() < 0.8
    comma = knobs["comma_params"] and len(params) >= 2 and rng.random() < 0.8
    for i, p in enumerate(params):
        brk = wrap and rng.random() < (0.5 if i else 0.35)
        if i > 0 and comma and rng.random() < 0.8:
            cur += tight() + ","
            if not brk:
                cur += tight() if rng.random() < 0.3 else sp()
        elif not brk:
            cur += sp()
        if brk:
            if knobs["comments_trailing"] and rng.random() < 0.2:
                cur += " " + _comment(rng, knobs)
            out_lines.append(cur)
            if knobs["blank_lines"] and rng.random() < 0.1:
                out_lines.append("")
            cur = _ws(rng, 1, 8)
        cur += p
    if line["semi"]:
        if wrap and params and rng.random() < 0.3:
            out_lines.append(cur)
            cur = _ws(rng, 0, 8)
        cur += tight()
        n = rng.randint(2, 3) if knobs["multi_semicolon"] and rng.random() < 0.6 else 1
        cur += tight().join(";" for _ in range(n)) if knobs["spacing"] else ";" * n
    if knobs["spacing"] and rng.random() < 0.3:
        cur += _ws(rng, 1, 3)
    if knobs["comments_trailing"] and rng.random() < 0.35:
        cur += (sp() if rng.random() < 0.8 else "") + _comment(rng, knobs)
    out_lines.append(cur)
    return out_lines


def physical_lines(doc: dict, rng: random.Random, knobs: dict) -> list[str]:
    out: list[str] = []

    def filler():
        if knobs["blank_lines"] and rng.random() < 0.35:
            for _ in range(rng.randint(1, 2)):
                out.append(_ws(rng, 1, 4) if rng.random() < 0.3 else "")
        if knobs["comments_full"] and rng.random() < 0.35:
            out.append((_ws(rng, 1, 4) if rng.random() < 0.3 else "") + _comment(rng, knobs))

    raw = bool(doc.get("meta", {}).get("raw"))
    filler()
    for st in doc["statements"]:
        for ln in st["lines"]:
            out.extend(render_line(ln, rng, knobs))
            if not raw or rng.random() < 0.02:
                filler()
    return out


def make_delivery(doc: dict, dseed: int, knobs: dict) -> dict:
    rng = random.Random(dseed)
    lines = physical_lines(doc, rng, knobs)
    nl_all = knobs["crlf"]

    def join(ls, final_newline=True):
        parts = []
        for i, s in enumerate(ls):
            last = i == len(ls) - 1
            if last and not final_newline:
                parts.append(s)
            else:
                nl = "\r\n" if nl_all == "all" or (nl_all == "mixed" and rng.random() < 0.5) else "\n"
                parts.append(s + nl)
        return "".join(parts)

    def end_line():
        s = (_ws(rng, 0, 3) if knobs["indent"] else "") + "End"
        if knobs["comments_trailing"] and rng.random() < 0.5:
            s += " " + _comment(rng, knobs)
        return s

    if knobs["mode"] == "string":
        ls = list(lines)
        if knobs["final_end"]:
            ls.append(end_line())
        return {"mode": "string", "text": join(ls, True), "reparse": bool(knobs.get("reparse"))}

    n = max(1, min(knobs["n_files"], 4))
    cuts = sorted(rng.randint(0, len(lines)) for _ in range(n - 1))
    bounds = [0, *cuts, len(lines)]
    files = []
    tag = f"{dseed & 0xFFFFFF:06x}"
    for i in range(n):
        ls = lines[bounds[i] : bounds[i + 1]]
        is_last = i == n - 1
        if (knobs["end_per_file"] and rng.random() < 0.7) or (is_last and knobs["final_end"]):
            ls = [*ls, end_line()]
        final_nl = not (knobs["no_final_newline"] and rng.random() < 0.6)
        content = join(ls, final_nl) if ls else ""
        if knobs["bom"] and rng.random() < 0.7:
            content = "\ufeff" + content
        files.append({"name": f"/simfs/{tag}/part{i}.dec", "content": content})
        if knobs["extra_files"] and rng.random() < 0.5:
            extra = "" if rng.random() < 0.5 else join([_comment(rng, knobs), ""], True)
            files.append({"name": f"/simfs/{tag}/extra{i}.dec", "content": extra})
    fault = None
    if knobs["fault"] == "eio":
        j = rng.randrange(len(files))
        size = len(files[j]["content"].encode("utf-8"))
        fault = {"kind": "eio", "file": files[j]["name"], "offset": rng.randint(0, max(0, size - 1)), "once": rng.random() < 0.5}
    elif knobs["fault"] == "vanish":
        fault = {"kind": "vanish", "file": files[rng.randrange(len(files))]["name"]}
    elif knobs["fault"] == "interrupt":
        n_lines = sum(f["content"].count("\n") + 1 for f in files)
        fault = {"kind": "interrupt", "k": rng.randint(1, max(2, 7 * n_lines + 20))}
    solo = None
    if knobs.get("solo_first") and fault is None and len(files) > 1:
        # a file that is not the last one of the main delivery, so that it changes position between the two reads
        solo = rng.randrange(len(files) - 1)
    return {"mode": "files", "files": files, "chunk": knobs["chunk"], "path_flavour": knobs["path_flavour"], "fault": fault,
            "reparse": bool(knobs.get("reparse")), "solo_first": solo}


def abstract(knobs: dict) -> tuple:
    """The delivery's place in the simulated dimensions (for distinct-history counts)."""
    return tuple((k, knobs[k]) for k in SIM_DIMENSIONS) + tuple(
        (k, knobs[k]) for k in ("comments_full", "comments_trailing", "blank_lines", "indent", "spacing", "wrap_params",
                                "comma_params", "multi_semicolon", "nonascii")
    )


def is_simulated_dimension(knobs: dict) -> bool:
    d = KNOB_DEFAULTS
    return any(knobs[k] != d[k] for k in SIM_DIMENSIONS)
