"""Seeded generator of *logical* .dec documents.

A document is an ordered list of statements; a statement is a list of logical
lines; a logical line is
    {"pre": [tok | [glued, toks]], "params": [tok,...] | None, "semi": bool}
The canonical text of a line is its tokens joined by one space (glued groups
joined by nothing), parameters after them, ';' appended directly.  Every other
layout is produced by worlds.decpack from this structure, so the generator
never has to parse text to know where a parameter list or a token boundary is.
"""

from __future__ import annotations

import random
import re

KEYWORDS = {
    "Decay", "Enddecay", "End", "PHOTOS", "Alias", "ChargeConj", "CDecay", "CopyDecay", "Define", "Particle",
    "ModelAlias", "SetLineshapePW", "BlattWeisskopf", "JetSetPar", "yesPhotos", "noPhotos", "LSFLAT", "LSNONRELBW",
    "LSMANYDELTAFUNC", "IncludeBirthFactor", "IncludeDecayFactor", "ChangeMassMin", "ChangeMassMax",
    "PythiaAliasParam", "PythiaBothParam", "PythiaGenericParam", "yes", "no",
}
LABEL_RE = re.compile(r"[a-zA-Z0-9/\-+*_().'~]+\Z")
NUMBER_FORMS = ["1", "1.", ".5", "-0.8", "+3", "20.e12", "2E-4", "0.25", "1.0", "0.0", "3.14159", "-1.5e-3", "0.507e12", "100", "0.333"]
BF_FORMS = ["1.0", "0.5", "0.25", "0.1", "1", "0.333", "2E-4", ".5", "1.", "0.0124", "0.677", "1.5e-3", "0.98823"]
WORDS = ["DtoKpipipi_v1", "MAXPDF", "AMPLITUDE", "RESONANCE", "BC", "K*0", "RBW_ZEMACH", "POLAR_RAD", "B0", "f_0(1500)",
         "anti-K*0", "phi", "x'y~z", "a/b", "Upsilon(4S)", "chi_c0"]

_cache: dict = {}


def tables():
    """Name tables of the installed packages (data only; no parser code runs)."""
    if not _cache:
        from particle import Particle
        from particle.converters import EvtGenName2PDGIDBiMap

        from decaylanguage.dec.enums import known_decay_models

        names = sorted(k for k in EvtGenName2PDGIDBiMap._to_map if isinstance(k, str)) or sorted(
            k for k in EvtGenName2PDGIDBiMap._from_map if isinstance(k, str)
        )
        models = tuple(known_decay_models)
        model_re = re.compile("(?:" + "|".join(re.escape(m) for m in sorted(models, key=len, reverse=True)) + r")\b")
        names = [n for n in names if label_ok(n, model_re)]
        conj = {}
        for n in names:
            try:
                p = Particle.from_evtgen_name(n)
                c = p.invert().evtgen_name
                if c != n and label_ok(c, model_re):
                    conj[n] = c
            except Exception:
                pass
        _cache.update(names=names, models=models, model_re=model_re, conj=conj, conj_names=sorted(conj))
    return _cache


def label_ok(s: str, model_re=None) -> bool:
    if not s or not LABEL_RE.match(s) or s in KEYWORDS or s.startswith("End"):
        return False
    if not s[0].isalpha():
        return False
    if model_re is not None and model_re.match(s):
        return False
    return True


ALPHABET_TAIL = "abcxyzKDB0123459/-+*_().'~"


def fresh_label(rng: random.Random, used: set, stem: str | None = None) -> str:
    t = tables()
    for _ in range(100):
        if stem and rng.random() < 0.7:
            s = rng.choice(["My", "my_", "Sig", "X"]) + stem
            if rng.random() < 0.3:
                s += rng.choice(["sig", "_2", "'", "~", "*", "(2S)"])
        else:
            s = rng.choice("ABCDKMNPQRSTXYZabcdfghkmnpqrst") + "".join(
                rng.choice(ALPHABET_TAIL) for _ in range(rng.randint(1, 7))
            )
        if s not in used and label_ok(s, t["model_re"]) and s not in t["names"]:
            used.add(s)
            return s
    raise RuntimeError("could not make a fresh label")


def L(pre, params=None, semi=False):
    return {"pre": list(pre), "params": None if params is None else list(params), "semi": semi}


def gen_params(rng, defines, n_max=8, allow_define=True):
    n = rng.choice([0, 0, 1, 2, 3, 4, 8]) if n_max >= 8 else rng.randint(0, n_max)
    out = []
    for _ in range(n):
        r = rng.random()
        if r < 0.55:
            out.append(rng.choice(NUMBER_FORMS))
        elif r < 0.8 or not (defines and allow_define):
            out.append(rng.choice(WORDS))
        else:
            d = rng.choice(defines)
            out.append(("-" + d) if rng.random() < 0.25 else d)
    return out


def generate(rng: random.Random, cfg: dict | None = None) -> dict:
    """Returns {"statements": [{"kind":..., "lines":[...]}, ...], "meta": {...}}"""
    cfg = cfg or {}
    t = tables()
    names, models = t["names"], t["models"]
    used: set = set()
    stmts: list = []
    max_tables = cfg.get("max_tables", 5)

    # --- global definitions available to decay lines
    defines = []
    for _ in range(rng.choice([0, 0, 1, 2, 3])):
        d = rng.choice(["dm", "alpha", "beta", "minusGamma", "dm_incohMix_B0", "PKHplus"]) if rng.random() < 0.6 else fresh_label(rng, used)
        if d in KEYWORDS:
            continue
        defines.append(d)
        stmts.append({"kind": "define", "lines": [L(["Define", d, rng.choice(NUMBER_FORMS)])]})
    if defines and rng.random() < 0.2:  # redefinition: later wins
        stmts.append({"kind": "define", "lines": [L(["Define", rng.choice(defines), rng.choice(NUMBER_FORMS)])]})

    aliases = []  # (alias, target)
    model_aliases = []  # (name, uses_define)

    def gen_model_alias():
        name = fresh_label(rng, used, "Model")
        m = rng.choice(models)
        with_def = rng.random() < 0.2
        params = gen_params(rng, defines, 4, allow_define=with_def)
        uses_define = any(p.lstrip("-") in defines for p in params)
        model_aliases.append([name, uses_define, 0])
        stmts.append({"kind": "model_alias", "lines": [L(["ModelAlias", name, m], params if params else None, True)]})

    for _ in range(rng.choice([0, 0, 1, 2])):
        gen_model_alias()

    # --- decay tables
    mothers: list = []
    conj_pairs = []  # (source mother, cdecay name, needs ChargeConj statement?)
    n_tables = rng.randint(1, max_tables)
    # documents of one session may share their small pool of daughter names (cfg["name_pool"]): state that one parser leaves
    # behind in the process about a name is then met by another parser's file
    daughters_pool = list(cfg.get("name_pool") or [rng.choice(names) for _ in range(8)])
    decaying: list = []

    def pick_mother():
        r = rng.random()
        if r < 0.35 and t["conj_names"]:
            return rng.choice(t["conj_names"])
        if r < 0.6:
            return rng.choice(names)
        if r < 0.8:
            tgt = rng.choice(names)
            a = fresh_label(rng, used, re.sub(r"[^A-Za-z0-9]", "", tgt) or "P")
            aliases.append((a, tgt))
            return a
        return fresh_label(rng, used)

    def gen_decay(mother):
        lines = [L(["Decay", mother])]
        for _ in range(rng.choice([0, 1, 1, 2, 3, 4, 5])):
            nd = rng.choice([0, 1, 2, 2, 3, 3, 4])
            ds = []
            for _ in range(nd):
                r = rng.random()
                if r < 0.35 and decaying:
                    ds.append(rng.choice(decaying))
                elif r < 0.8:
                    ds.append(rng.choice(daughters_pool))
                else:
                    ds.append(rng.choice(names))
            pre = [rng.choice(BF_FORMS), *ds]
            if rng.random() < 0.25:
                pre.append("PHOTOS")
            usable = [ma for ma in model_aliases if not (ma[1] and ma[2] >= 1)]
            if usable and rng.random() < 0.3:
                ma = rng.choice(usable)
                ma[2] += 1
                pre.append(ma[0])
                lines.append(L(pre, None, True))
            else:
                custom = cfg.get("custom_models") or []
                pre.append(rng.choice(custom) if custom and rng.random() < 0.3 else rng.choice(models))
                params = gen_params(rng, defines)
                lines.append(L(pre, params if params else None, True))
        lines.append(L(["Enddecay"]))
        return {"kind": "decay", "lines": lines, "mother": mother}

    for _ in range(n_tables):
        m = pick_mother()
        if m in mothers and rng.random() < 0.8:
            continue
        mothers.append(m)
        stmts.append(gen_decay(m))
        decaying.append(m)  # only earlier tables can be daughters: acyclic by construction (apart from name collisions)

    # --- copies
    copies = []
    for _ in range(rng.choice([0, 0, 1, 2])):
        old = rng.choice(mothers)
        new = fresh_label(rng, used, "Copy")
        copies.append((new, old))
        stmts.append({"kind": "copydecay", "lines": [L(["CopyDecay", new, old])]})
    if rng.random() < 0.1:  # a copy whose source does not exist: warning, skipped
        stmts.append({"kind": "copydecay", "lines": [L(["CopyDecay", fresh_label(rng, used, "Copy"), fresh_label(rng, used)])]})

    # --- conjugates
    cdecay_names = set()
    for src in list(mothers) + [c[0] for c in copies]:
        if rng.random() > 0.45:
            continue
        if src in t["conj"] and rng.random() < 0.7:
            cc = t["conj"][src]
            if cc in mothers or cc in cdecay_names or cc in [c[0] for c in copies]:
                continue
            cdecay_names.add(cc)
            stmts.append({"kind": "cdecay", "lines": [L(["CDecay", cc])]})
        else:
            cc = fresh_label(rng, used, "Anti")
            if rng.random() < 0.25 and t["conj_names"]:
                # a plain particle declared to be the conjugate of something else in this file
                cand = rng.choice([n for n in daughters_pool if n in t["conj"]] or t["conj_names"])
                if cand not in mothers and cand not in cdecay_names and cand not in [c[0] for c in copies] and cand != src:
                    cc = cand
            if rng.random() < 0.5:
                stmts.append({"kind": "chargeconj", "lines": [L(["ChargeConj", src, cc])]})
            else:
                stmts.append({"kind": "chargeconj", "lines": [L(["ChargeConj", cc, src])]})
            cdecay_names.add(cc)
            stmts.append({"kind": "cdecay", "lines": [L(["CDecay", cc])]})
    if rng.random() < 0.08:  # CDecay without a source table: warning, nothing added
        stmts.append({"kind": "cdecay", "lines": [L(["CDecay", fresh_label(rng, used, "Anti")])]})

    for a, tgt in aliases:
        stmts.append({"kind": "alias", "lines": [L(["Alias", a, tgt])]})
    for _ in range(rng.choice([0, 0, 1])):
        stmts.append({"kind": "alias", "lines": [L(["Alias", fresh_label(rng, used, "Al"), rng.choice(names)])]})

    # --- other global statements
    ls_seen: set = set()

    def once(key):
        if key in ls_seen:
            return False
        ls_seen.add(key)
        return True

    for _ in range(rng.choice([0, 0, 1, 2, 4])):
        k = rng.choice(["particle", "pythia", "jetset", "ls", "bw", "mass", "inc", "pw", "photos", "model_alias_late"])
        who = rng.choice(mothers + [rng.choice(names)])
        if k == "particle":
            pre = ["Particle", who, rng.choice(["1.869", "5.279", "0.1396"])]
            if rng.random() < 0.6:
                pre.append(rng.choice(["0.0", "0.15", "1.3e-3"]))
            stmts.append({"kind": "particle_def", "lines": [L(pre)]})
        elif k == "pythia":
            stmts.append({"kind": "pythia_def", "lines": [L([
                rng.choice(["PythiaAliasParam", "PythiaBothParam", "PythiaGenericParam"]),
                [rng.choice(["ParticleDecays", "StringFlav", "TimeShower"]), ":", rng.choice(["mixB", "mesonUDvector", "pTmin"]),
                 "=", rng.choice(["off", "on", "0.5", "2", "-1.5"])]])]})
        elif k == "jetset":
            stmts.append({"kind": "jetset_def", "lines": [L(["JetSetPar", [rng.choice(["PARJ", "MSTJ", "MSTU"]) + f"({rng.randint(1, 99)})", "=",
                                                                           rng.choice(["0.36", "0", "12", "-2.5"])]])]})
        elif k == "ls" and once(("ls", who)):
            stmts.append({"kind": "ls_def", "lines": [L([rng.choice(["LSFLAT", "LSNONRELBW", "LSMANYDELTAFUNC"]), who])]})
        elif k == "bw" and once(("bw", who)):
            stmts.append({"kind": "setlsbw", "lines": [L(["BlattWeisskopf", who, rng.choice(["0.0", "3.0", "1.5"])])]})
        elif k == "mass":
            lab = rng.choice(["ChangeMassMin", "ChangeMassMax"])
            if once((lab, who)):
                stmts.append({"kind": "changemasslimit", "lines": [L([lab, who, rng.choice(["0.5", "1.1", "2"])])]})
        elif k == "inc":
            lab = rng.choice(["IncludeBirthFactor", "IncludeDecayFactor"])
            if once((lab, who)):
                stmts.append({"kind": "inc_factor", "lines": [L([lab, who, rng.choice(["yes", "no"])])]})
        elif k == "pw":
            stmts.append({"kind": "setlspw", "lines": [L(["SetLineshapePW", who, rng.choice(names), rng.choice(names), str(rng.randint(0, 3))])]})
        elif k == "photos":
            stmts.append({"kind": "global_photos", "lines": [L([rng.choice(["yesPhotos", "noPhotos"])])]})
        elif k == "model_alias_late":
            gen_model_alias()

    # --- order: grammar is order-free; shuffle, keeping nothing in place on purpose
    if rng.random() < 0.7:
        rng.shuffle(stmts)
    return {"statements": stmts, "meta": {"mothers": mothers, "copies": copies, "cdecays": sorted(cdecay_names),
                                          "defines": defines, "aliases": aliases}}


def canon_tok(tok) -> str:
    return "".join(tok) if isinstance(tok, list) else tok


def canon_line(line: dict) -> str:
    if "raw" in line:
        return line["raw"]
    s = " ".join(canon_tok(x) for x in line["pre"])
    if line["params"]:
        s += " " + " ".join(line["params"])
    if line["semi"]:
        s += ";"
    return s


def canonical_text(doc: dict) -> str:
    return "".join(canon_line(ln) + "\n" for st in doc["statements"] for ln in st["lines"])


def raw_document(text: str) -> dict | None:
    """A shipped file as a document of opaque lines (only line-level edits
    apply).  Closing End lines are removed; returns None when an End line is
    followed by anything other than blanks and comments (never the case for the
    shipped files)."""
    lines = text.replace("\r\n", "\n").split("\n")
    if lines and lines[-1] == "":
        lines.pop()
    out = []
    seen_end = False
    for ln in lines:
        s = ln.lstrip("\ufeff").lstrip()
        if s.startswith("End") and not s.startswith("Enddecay"):
            seen_end = True
            continue
        if seen_end and s and not s.startswith("#"):
            return None
        out.append(ln.lstrip("\ufeff"))
    return {"statements": [{"kind": "raw", "lines": [{"raw": ln} for ln in out]}], "meta": {"raw": True}}
