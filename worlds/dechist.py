"""dec world, C08: the life of 1-3 DecFileParser instances in one process.

A session is an explicit list of operations (queries with arguments, parses,
registrations, in-place mutation of returned values, consumers that chew on
returned chains, interrupted calls).  A seeded scheduler writes it; the
executor runs it against the real parser and compares, operation by operation,
with *pristine replicas*: fresh instances living in children forked before the
session has executed a single line of the library.

Op shapes
  {"op": "q", "p": i, "q": name, "a": [...], "kw": {...}}        any public query
  {"op": "parse", "p": i, "cc": bool}
  {"op": "load_models", "p": i, "models": [...]}
  {"op": "mutate", "seed": int}                                   in-place edit of the last returned value
  {"op": "consume", "p": i, "m": mother, "how": "viewer"|"from_dict"|"expand"}
  {"op": "interrupt", "inner": <q or parse op>, "frac": 0..1}     inner run completely (counted), then again with
                                                                   SimFault at ceil(frac * line events); an interrupted
                                                                   parse is followed by a complete parse
  {"op": "checkpoint", "p": i}                                    full snapshot equals the replica's
"""

from __future__ import annotations

import hashlib
import json
import math
import random
import warnings

from simkit.forkcall import fork_call
from simkit.inject import Injector, SimFault
from worlds import decgen, decpack
from worlds.decsnap import GLOBAL_QUERIES, captured_print, first_difference, jsonable, snapshot
from worlds.decworld import construct

CUSTOM_MODELS = ["MYMODEL", "XYZ_MODEL-2", "SIG_AMP"]
KILL_TARGETS = ["parse", "_find_parsed_decays", "_check_parsed_decays", "_add_decays_to_be_copied", "_add_charge_conjugate_decays",
                "_is_not_self_conj", "particle", "model", "model_options", "_replacement", "build_decay_chains", "_find_decay_modes",
                "_decay_mode_details", "print_decay_modes", "expand_decay_modes", "_expand_decay_modes", "list_decay_modes",
                "get_model_parameters", "get_final_state_particle_names", "find_charge_conjugate_match", "get_lineshape_settings",
                "get_particle_property_definitions", "to_string", "format_descriptor"]
SIZE_LIMIT = 4000
PATH_LIMIT = 200


# ------------------------------------------------------------------ queries
def _grammar_info(p):
    info = p.grammar_info()
    return {"keys": sorted(info), "parser": info.get("parser"), "lexer": info.get("lexer"), "lark_file": info.get("lark_file"),
            "callback": callable(info.get("edit_terminals"))}


QUERIES = {
    "list_decay_mother_names": lambda p: p.list_decay_mother_names(),
    "number_of_decays": lambda p: p.number_of_decays,
    "list_decay_modes": lambda p, m, **kw: p.list_decay_modes(m, **kw),
    "print_decay_modes": lambda p, m, **kw: captured_print(p, m, **kw),
    "build_decay_chains": lambda p, m, s=(): p.build_decay_chains(m, stable_particles=s),
    "expand_decay_modes": lambda p, m: p.expand_decay_modes(m),
    "repr": lambda p: repr(p),
    "str": lambda p: str(p),
    "grammar": lambda p: hashlib.sha256(p.grammar().encode()).hexdigest(),
    "grammar_info": _grammar_info,
    "grammar_loaded": lambda p: p.grammar_loaded,
}
for _q in GLOBAL_QUERIES:
    QUERIES[_q] = (lambda name: (lambda p: getattr(p, name)()))(_q)

SIZE_GUARDED = {"build_decay_chains", "expand_decay_modes"}
NO_INTERRUPT = {"grammar", "grammar_info", "grammar_loaded"}  # lazy loaders: the property does not promise they survive a kill


def qkey(op) -> str:
    return json.dumps([op["q"], op.get("a", []), op.get("kw", {})], sort_keys=True)


def run_query(p, op, keep_raw=False):
    """-> (outcome, warning categories, raw value or None)"""
    raw = None
    with warnings.catch_warnings(record=True) as wlog:
        warnings.simplefilter("always")
        try:
            raw = QUERIES[op["q"]](p, *op.get("a", []), **op.get("kw", {}))
            out = {"v": jsonable(raw)}
        except RecursionError:
            out = {"x": ["RecursionError", ""]}
        except Exception as e:
            out = {"x": [type(e).__name__, (str(e).splitlines() or [""])[0][:200]]}
    cats = sorted({w.category.__name__ for w in wlog})
    return out, cats, (raw if keep_raw else None)


def tree_size(p, m, memo, depth=0):
    if m in memo:
        return memo[m]
    if depth > 14:
        return 10**9
    memo[m] = 10**9
    try:
        modes = p.list_decay_modes(m)
    except Exception:
        memo[m] = 0
        return 0
    total = 0
    for fs in modes:
        total += 1
        for d in fs:
            total += tree_size(p, d, memo, depth + 1)
            if total > 10**7:
                break
    memo[m] = total
    return total


# ------------------------------------------------------------------ replica side (runs in a forked, pristine child)
def fresh_instance(delivery, regs, cc):
    p = construct(delivery)
    status = {"constructed": True, "parse": None}
    if regs:
        p.load_additional_decay_models(*regs)
    if cc is not None:
        with warnings.catch_warnings():
            warnings.simplefilter("ignore")
            try:
                p.parse(include_ccdecays=cc)
                status["parse"] = "ok"
            except Exception as e:
                status["parse"] = type(e).__name__
    return p, status


def replica_table(delivery, regs, cc, ops, cross_fraction, cross_seed):
    """One long-lived fresh instance answers every needed query once, in
    canonical order; a seeded sample is recomputed on single-use instances."""
    from worlds.decsnap import path_count

    try:
        p, status = fresh_instance(delivery, regs, cc)
    except Exception as e:  # the constructor itself refuses this delivery: nothing to compare a session against
        return {"__construct_failed__": f"{type(e).__name__}: {e}"[:200], "__cross__": {"checked": 0, "disagreements": []}}
    table = {"__parse__": status["parse"]}
    memo_size: dict = {}
    memo_paths: dict = {}
    keys = sorted({qkey(o): o for o in ops}.items())
    for k, op in keys:
        if op["q"] == "__snapshot__":
            table[k] = {"snap": snapshot(p)}
            continue
        if op["q"] in SIZE_GUARDED and status["parse"] == "ok":
            m = op["a"][0]
            big = tree_size(p, m, memo_size) > SIZE_LIMIT
            if not big and op["q"] == "expand_decay_modes":
                try:
                    big = path_count(p, m, memo_paths) > PATH_LIMIT
                except RecursionError:
                    big = True
            if big:
                table[k] = {"skip": True}
                continue
        out, cats, _ = run_query(p, op)
        table[k] = {"out": out, "warn": cats}
    rng = random.Random(cross_seed)
    disagreements = []
    crossed = 0
    for k, op in keys:
        if "out" not in table[k] or rng.random() >= cross_fraction:
            continue
        q, _ = fresh_instance(delivery, regs, cc)
        out, cats, _ = run_query(q, op)
        crossed += 1
        if out != table[k]["out"]:
            disagreements.append({"q": op["q"], "a": op.get("a", []), "long_lived": table[k]["out"], "single_use": out})
    table["__cross__"] = {"checked": crossed, "disagreements": disagreements}
    return table


# ------------------------------------------------------------------ mutation of returned values
def mutate_inplace(value, rng: random.Random) -> str | None:
    """Seeded in-place edit somewhere inside a returned list/dict structure."""
    containers = []

    def walk(v, depth):
        if isinstance(v, (list, dict)):
            containers.append(v)
            for x in v.values() if isinstance(v, dict) else v:
                if depth < 8:
                    walk(x, depth + 1)

    walk(value, 0)
    if not containers:
        return None
    c = rng.choice(containers)
    if isinstance(c, list):
        how = rng.choice(["append", "pop", "reverse", "clear", "overwrite", "insert"])
        if how == "append":
            c.append("JUNK")
        elif how == "pop" and c:
            c.pop(rng.randrange(len(c)))
        elif how == "reverse":
            c.reverse()
        elif how == "clear":
            c.clear()
        elif how == "overwrite" and c:
            c[rng.randrange(len(c))] = rng.choice(["JUNK", 0.123456, {"JUNK": []}])
        else:
            c.insert(0, "JUNK")
        return "list." + how
    how = rng.choice(["set", "delete", "clear", "overwrite"])
    if how == "set":
        c["JUNK"] = rng.choice([1.0, "x", ["y"]])
    elif how == "delete" and c:
        del c[rng.choice(list(c))]
    elif how == "clear":
        c.clear()
    elif c:
        c[rng.choice(list(c))] = rng.choice([0.5, "JUNK", []])
    return "dict." + how


# ------------------------------------------------------------------ structural view of the anchored state
def _lark_ids(tree):
    from lark import Token, Tree

    ids = set()
    stack = [tree]
    while stack:
        t = stack.pop()
        if isinstance(t, Tree):
            if id(t) in ids:
                continue
            ids.add(id(t))
            stack.extend(t.children)  # t.data is the grammar's rule name, shared by every tree of that rule: not state
        elif isinstance(t, Token):
            ids.add(id(t))
    return ids


def _struct_hash(obj) -> str:
    from lark import Token, Tree

    h = hashlib.sha256()

    def rec(t):
        if isinstance(t, Tree):
            h.update(b"T(" + str(t.data).encode())
            for c in t.children:
                rec(c)
            h.update(b")")
        elif isinstance(t, Token):
            h.update(b"t" + str(t.type).encode() + b"=" + repr(t.value).encode())
        elif isinstance(t, (list, tuple)):
            h.update(b"[")
            for c in t:
                rec(c)
            h.update(b"]")
        else:
            h.update(repr(t).encode())

    rec(obj)
    return h.hexdigest()


def state_hash(p):
    try:
        if p._parsed_decays is not None and len(p._parsed_decays) > 300:
            return None  # master files: decided at checkpoints only
        return _struct_hash([p._parsed_dec_file, p._parsed_decays])
    except Exception:
        return None


class Violation(Exception):
    def __init__(self, check, detail, extra=None):
        super().__init__(check)
        self.check = check
        self.detail = detail
        self.extra = extra or {}


def parse_invariants(p, stats, decay_mothers=None, cc=True):
    """After a complete parse: copied / conjugated tables are equal to what
    they derive from and share no mutable parse-tree object with it."""
    from lark import Tree

    try:
        copies = p.dict_decays2copy()
        names = p.list_decay_mother_names()
    except Exception:
        return
    trees = None
    try:
        pd = p._parsed_decays
        if isinstance(pd, list) and all(isinstance(t, Tree) for t in pd):
            trees = {}
            for t in pd:
                trees.setdefault(t.children[0].children[0].value, t)
    except Exception:
        trees = None
    if trees is None:
        stats["identity_invariant_unavailable"] = stats.get("identity_invariant_unavailable", 0) + 1

    def flat(m):
        ch = p.build_decay_chains(m, stable_particles=[d for fs in p.list_decay_modes(m) for d in fs])
        return jsonable(ch[m])

    def rows(m):
        ch = p.build_decay_chains(m, stable_particles=[d for fs in p.list_decay_modes(m) for d in fs])
        return [{k: (len(v) if k == "fs" else jsonable(v)) for k, v in line.items()} if isinstance(line, dict) else jsonable(line)
                for line in ch[m]]

    # a CopyDecay whose source has a Decay block leaves both tables in place
    if decay_mothers is not None:
        for new, old in copies.items():
            if old in decay_mothers and new not in decay_mothers and not (old in names and new in names):
                raise Violation("copy_leaves_source_and_copy", {"new": new, "old": old, "mother_names": names[:30]})
    # no table created by copying or conjugation shares a mutable parse-tree object with any other table
    if trees is not None and decay_mothers is not None:
        pd = p._parsed_decays
        idsets = [(_lark_ids(t), t.children[0].children[0].value) for t in pd]
        for a in range(len(pd)):
            if idsets[a][1] in decay_mothers:
                continue
            for b in range(len(pd)):
                if a != b and idsets[a][0] & idsets[b][0]:
                    stats["derived_pairs_checked"] = stats.get("derived_pairs_checked", 0) + 1
                    raise Violation("derived_table_shares_state",
                                    {"kind": "any", "derived": idsets[a][1], "other": idsets[b][1], "positions": [a, b],
                                     "shared_objects": len(idsets[a][0] & idsets[b][0])}, {"kind": "any"})
    # ... and a copy is usable as the source of a later CDecay: the conjugate of a genuine copy gets a table
    if cc and decay_mothers is not None:
        try:
            from decaylanguage.dec.dec import find_charge_conjugate_match as _match

            ccdefs_ = p.dict_charge_conjugates()
            for x in p.list_charge_conjugate_decays():
                y = _match(x, ccdefs_)
                if (x not in decay_mothers and y != x and y in copies and y not in decay_mothers and copies[y] in decay_mothers
                        and y in names and x not in names):
                    raise Violation("copy_usable_as_cdecay_source", {"cdecay": x, "its_source_is_the_copy": y, "copied_from": copies[y],
                                                                     "mother_names": names[:30]})
        except Violation:
            raise
        except Exception:
            pass
    pairs = []
    for new, old in copies.items():
        if new in names and old in names and names.index(new) != names.index(old):
            pairs.append(("copy", new, old))
    try:
        from decaylanguage.dec.dec import find_charge_conjugate_match

        ccdefs = p.dict_charge_conjugates()
        for x in p.list_charge_conjugate_decays():
            if x in names:
                y = find_charge_conjugate_match(x, ccdefs)
                if y in names and y != x and names.count(x) == 1:
                    pairs.append(("conj", x, y))
    except Exception:
        pass
    for kind, derived, source in pairs:
        if decay_mothers is not None and derived in decay_mothers:
            continue  # has a Decay block of its own, which takes precedence: not a derived table
        stats["derived_pairs_checked"] = stats.get("derived_pairs_checked", 0) + 1
        if trees is not None and derived in trees and source in trees:
            shared = _lark_ids(trees[derived]) & _lark_ids(trees[source])
            if shared:
                raise Violation("derived_table_shares_state", {"kind": kind, "derived": derived, "source": source, "shared_objects": len(shared)},
                                {"kind": kind})
        try:
            fd, fs_ = flat(derived), flat(source)
        except Exception:
            continue  # the tables cannot be flattened (e.g. cyclic): nothing to compare
        if kind == "copy":
            if fd != fs_:
                raise Violation("copy_equals_source", {"new": derived, "old": source, "new_table": fd[:4], "old_table": fs_[:4]})
        elif source in copies:
            try:
                rd, rs = rows(derived), rows(source)
            except Exception:
                continue
            if rd != rs:
                raise Violation("conj_of_copy_consistent", {"cdecay": derived, "source": source, "got": rd[:4], "want": rs[:4]})


# ------------------------------------------------------------------ executor
def model_pass(case):
    """Pure pass over the op list: which replica (instance, registrations in
    force at the latest parse attempt, switch) answers each op."""
    st = [{"regs": [], "regs_at_parse": None, "cc": None, "gl": False} for _ in case["instances"]]
    need: dict = {}
    keys = []

    def want(i, op):
        s = st[i]
        rk = json.dumps([i, s["regs_at_parse"], s["cc"]])
        if rk not in need:  # every replica can also be asked for its full snapshot (needed when internal state is seen to change)
            need[rk] = {"inst": i, "regs": s["regs_at_parse"], "cc": s["cc"], "ops": [{"q": "__snapshot__"}]}
        need[rk]["ops"].append(op)
        return rk

    for op in case["ops"]:
        k = op["op"]
        rk = None
        if k == "load_models":
            st[op["p"]]["regs"] = st[op["p"]]["regs"] + list(op["models"])
        elif k == "parse" and op.get("wfilter") == "error":
            # a re-parse in a process that turns warnings into errors: the shipped code refuses it with the re-parse warning before
            # touching anything; whatever an implementation does, the instance must afterwards answer like a fresh instance parsed
            # with the old switch or with the new one
            s = st[op["p"]]
            if s["cc"] is None:
                rk = None  # only meaningful on an already parsed instance
            else:
                old_rk = want(op["p"], {"q": "__snapshot__"})
                s["regs_at_parse"], s["cc"] = list(s["regs"]), bool(op["cc"])
                new_rk = want(op["p"], {"q": "__snapshot__"})
                # (the attempt is followed by an ordinary complete parse with the new switch, so the model continues from there)
                rk = {"strict_reparse": [old_rk, new_rk]}
        elif k == "parse":
            s = st[op["p"]]
            s["regs_at_parse"], s["cc"], s["gl"] = list(s["regs"]), bool(op["cc"]), True
            rk = want(op["p"], {"q": "number_of_decays"})
        elif k == "q" and op["q"] == "grammar_loaded":
            # an observer of the documented lazy loading: predicted by the model, not by a replica
            rk = {"expect_loaded": st[op["p"]]["gl"]}
        elif k == "q":
            if op["q"] in ("grammar", "grammar_info"):
                st[op["p"]]["gl"] = True
            rk = want(op["p"], op)
        elif k == "checkpoint":
            rk = want(op["p"], {"q": "__snapshot__"})
        elif k == "interrupt":
            inner = op["inner"]
            if inner["op"] == "parse":
                s = st[inner["p"]]
                s["regs_at_parse"], s["cc"], s["gl"] = list(s["regs"]), bool(inner["cc"]), True
                rk = want(inner["p"], {"q": "__snapshot__"})
            elif inner["q"] in NO_INTERRUPT:
                rk = None
            else:
                rk = want(inner["p"], inner)
        keys.append(rk)
    # final checkpoint of every instance
    finals = [want(i, {"q": "__snapshot__"}) for i in range(len(case["instances"]))]
    return keys, finals, need


def deliveries_of(case):
    out = []
    for inst in case["instances"]:
        doc = case["docs"][inst["doc"]]
        knobs = dict(decpack.KNOB_DEFAULTS)
        knobs.update(inst.get("knobs") or {})
        knobs["fault"] = None
        out.append(decpack.make_delivery(doc, inst.get("dseed", 0), knobs))
    return out


def run_session(case: dict) -> dict:
    stats = {"ops": 0, "queries_compared": 0, "skipped_big": 0, "mutations": 0, "consumes": 0, "interrupt_fired": 0,
             "interrupt_not_reached": 0, "interrupted_parse": 0, "reparse": 0, "checkpoints": 0, "state_hash_changed": 0,
             "replicas": 0, "replica_cross_checked": 0, "notparsed_queries": 0}
    abstract = []
    out = {"verdict": "ok", "stats": stats}
    deliveries = deliveries_of(case)
    keys, finals, need = model_pass(case)
    cross_fraction = case.get("cross_fraction", 0.1)
    # --- replicas first: this process has not run library code yet
    tables = {}
    for rk in sorted(need):
        n = need[rk]
        tables[rk] = fork_call(replica_table, deliveries[n["inst"]], n["regs"], n["cc"], n["ops"], cross_fraction,
                               int(hashlib.sha256(rk.encode()).hexdigest()[:8], 16), limit_s=case.get("replica_limit_s", 100))
        stats["replicas"] += 1
        if "__construct_failed__" in tables[rk]:
            out.update(verdict="discard", reason="replica could not be constructed: " + tables[rk]["__construct_failed__"])
            out["abstract_hash"], out["nontrivial"], out["op_kinds"], out["log_digest"] = "discard", False, [], "discard"
            return out
        cr = tables[rk]["__cross__"]
        stats["replica_cross_checked"] += cr["checked"]
        if cr["disagreements"]:
            d = cr["disagreements"][0]
            out.update(verdict="violation", signature={"check": "reference_self_disagrees", "q": d["q"]}, detail=d)
            return out
    # --- the session itself
    insts = []
    last_raw = [None]
    hashes: dict = {}
    parse_ok: dict = {}
    try:
        for d in deliveries:
            insts.append(construct(d, keep=True))  # every instance's files stay on the simulated disk for the whole session

        def compare(i, op, rk, got, cats, where):
            ref = tables[rk][qkey(op)]
            if "skip" in ref:
                return False
            stats["queries_compared"] += 1
            if got.get("x", [None])[0] == "DecFileNotParsed":
                stats["notparsed_queries"] += 1
            if ref["out"] != got:
                raise Violation("op_equals_fresh", {"instance": i, "q": op["q"], "a": op.get("a", []), "kw": op.get("kw", {}), "where": where,
                                                    "fresh": _clip(ref["out"]), "got": _clip(got)}, {"q": op["q"]})
            if ref["warn"] != cats:
                raise Violation("op_warnings_equal_fresh", {"instance": i, "q": op["q"], "fresh": ref["warn"], "got": cats}, {"q": op["q"]})
            return True

        def do_checkpoint(i, rk, where):
            stats["checkpoints"] += 1
            ref = tables[rk][qkey({"q": "__snapshot__"})]["snap"]
            got = snapshot(insts[i])
            diff = first_difference(ref, got)
            if diff is not None:
                raise Violation("snapshot_equals_fresh", {"instance": i, "where": where, "diff": diff})

        def do_parse(i, cc, rk, where):
            with warnings.catch_warnings():
                warnings.simplefilter("ignore")
                try:
                    insts[i].parse(include_ccdecays=cc)
                    res = "ok"
                except Exception as e:
                    res = type(e).__name__
            want = tables[rk]["__parse__"]
            if res != want:
                raise Violation("parse_outcome_differs", {"instance": i, "where": where, "fresh": want, "got": res})
            parse_ok[i] = res == "ok"
            if res == "ok":
                meta = case["docs"][case["instances"][i]["doc"]].get("meta", {})
                dm = meta.get("decay_mothers", meta.get("mothers"))
                parse_invariants(insts[i], stats, set(dm) if dm is not None else None, cc=cc)
            hashes[i] = state_hash(insts[i])
            return res

        def after_query(i, rk, where):
            h = state_hash(insts[i])
            if i in hashes and h != hashes[i]:
                # internal trees changed: decide black-box, right now
                stats["state_hash_changed"] += 1
                hashes[i] = h
                do_checkpoint(i, rk, where + ":state_hash_changed")

        for step, (op, rk) in enumerate(zip(case["ops"], keys)):
            stats["ops"] += 1
            k = op["op"]
            if k == "load_models":
                insts[op["p"]].load_additional_decay_models(*op["models"])
                abstract.append((op["p"], k, "ok"))
            elif k == "parse" and op.get("wfilter") == "error":
                if rk is None:
                    abstract.append((op["p"], "strict_reparse", "skipped"))
                    continue
                i = op["p"]
                if not parse_ok.get(i):
                    # the instance holds no successfully parsed tables (its last parse failed): this would not be a *re*-parse, and
                    # a first parse aborted by some warning-turned-error is allowed to leave anything behind
                    do_parse(i, bool(op["cc"]), rk["strict_reparse"][1], f"step {step} (strict re-parse skipped: nothing parsed yet)")
                    abstract.append((i, "strict_reparse", "skipped_not_parsed"))
                    continue
                with warnings.catch_warnings():
                    warnings.simplefilter("error")
                    try:
                        insts[i].parse(include_ccdecays=bool(op["cc"]))
                        res = "returned"
                    except Exception as e:
                        res = type(e).__name__
                stats["strict_reparse_attempts"] = stats.get("strict_reparse_attempts", 0) + 1
                got = snapshot(insts[i])
                diffs = [first_difference(tables[r][qkey({"q": "__snapshot__"})]["snap"], got) for r in rk["strict_reparse"]]
                if all(d is not None for d in diffs):
                    raise Violation("refused_reparse_leaves_instance_intact",
                                    {"instance": i, "where": f"step {step}", "attempt": res, "vs_old_switch": diffs[0], "vs_new_switch": diffs[1]})
                do_parse(i, bool(op["cc"]), rk["strict_reparse"][1], f"step {step} (after refused re-parse)")
                abstract.append((i, "strict_reparse", res))
            elif k == "parse":
                if hashes.get(op["p"]) is not None:
                    stats["reparse"] += 1
                res = do_parse(op["p"], bool(op["cc"]), rk, f"step {step}")
                abstract.append((op["p"], k, res))
            elif k == "q" and isinstance(rk, dict):
                got, cats, _ = run_query(insts[op["p"]], op)
                stats["queries_compared"] += 1
                if got != {"v": rk["expect_loaded"]}:
                    raise Violation("op_equals_model", {"instance": op["p"], "q": op["q"], "model": rk["expect_loaded"], "got": got, "where": f"step {step}"},
                                    {"q": op["q"]})
                abstract.append((op["p"], op["q"], "v"))
            elif k == "q":
                ref = tables[rk][qkey(op)]
                if "skip" in ref:
                    stats["skipped_big"] += 1
                    abstract.append((op["p"], op["q"], "skipped"))
                    continue
                got, cats, raw = run_query(insts[op["p"]], op, keep_raw=True)
                last_raw[0] = raw
                compare(op["p"], op, rk, got, cats, f"step {step}")
                after_query(op["p"], rk, f"step {step}")
                abstract.append((op["p"], op["q"], "x" if "x" in got else "v"))
            elif k == "mutate":
                how = mutate_inplace(last_raw[0], random.Random(op["seed"])) if last_raw[0] is not None else None
                if how:
                    stats["mutations"] += 1
                abstract.append((-1, k, how or "nothing"))
            elif k == "consume":
                i = op["p"]
                bop = {"q": "build_decay_chains", "a": [op["m"]]}
                res = "skipped"
                try:
                    small = tree_size(insts[i], op["m"], {}) <= SIZE_LIMIT
                    if small and op["how"] == "expand":
                        from worlds.decsnap import path_count

                        small = path_count(insts[i], op["m"], {}) <= PATH_LIMIT  # the expansion is a product over daughters
                    chain = insts[i].build_decay_chains(op["m"]) if small else None
                except (Exception, RecursionError):
                    chain = None
                if chain is not None:
                    stats["consumes"] += 1
                    try:
                        if op["how"] == "viewer":
                            from decaylanguage import DecayChainViewer

                            DecayChainViewer(chain)
                        elif op["how"] == "from_dict":
                            from decaylanguage import DecayChain

                            DecayChain.from_dict(chain)
                        else:
                            from decaylanguage.decay.decay import _expand_decay_modes

                            _expand_decay_modes(chain, aliases=insts[i].dict_aliases())
                        res = "ok"
                    except RecursionError:
                        res = "x"
                    except Exception:
                        res = "x"
                del bop
                abstract.append((i, "consume:" + op["how"], res))
            elif k == "checkpoint":
                do_checkpoint(op["p"], rk, f"step {step}")
                abstract.append((op["p"], k, "ok"))
            elif k == "interrupt":
                inner = op["inner"]
                i = inner["p"]
                if inner["op"] == "parse":
                    inj0 = Injector(None)
                    with warnings.catch_warnings():
                        warnings.simplefilter("ignore")
                        try:
                            inj0.run(insts[i].parse, include_ccdecays=bool(inner["cc"]))
                        except Exception:
                            pass
                    kk = max(1, math.ceil(op["frac"] * inj0.count))
                    inj = Injector(int(op["k"]), op["target"]) if op.get("target") else Injector(kk)
                    with warnings.catch_warnings():
                        warnings.simplefilter("ignore")
                        try:
                            inj.run(insts[i].parse, include_ccdecays=bool(inner["cc"]))
                        except SimFault:
                            pass
                        except Exception:
                            pass
                    stats["interrupt_fired" if inj.fired else "interrupt_not_reached"] += 1
                    stats["interrupted_parse"] += 1 if inj.fired else 0
                    # the property promises that parsing again gives the same answers
                    with warnings.catch_warnings():
                        warnings.simplefilter("ignore")
                        try:
                            insts[i].parse(include_ccdecays=bool(inner["cc"]))
                            parse_ok[i] = True
                        except Exception:
                            parse_ok[i] = False
                    hashes[i] = state_hash(insts[i])
                    do_checkpoint(i, rk, f"step {step}: after interrupted parse at {inj.where} and re-parse")
                    abstract.append((i, "interrupt:parse", "fired" if inj.fired else "not_reached"))
                else:
                    if rk is None or "skip" in tables[rk][qkey(inner)]:
                        abstract.append((i, "interrupt:" + inner["q"], "skipped"))
                        continue
                    inj0 = Injector(None)
                    got, cats, raw = inj0.run(run_query, insts[i], inner, True)
                    compare(i, inner, rk, got, cats, f"step {step} (counted run)")
                    kk = max(1, math.ceil(op["frac"] * inj0.count))
                    inj = Injector(int(op["k"]), op["target"]) if op.get("target") else Injector(kk)
                    try:
                        inj.run(run_query, insts[i], inner)
                    except SimFault:
                        pass
                    stats["interrupt_fired" if inj.fired else "interrupt_not_reached"] += 1
                    # the same query right after the aborted call, then the internal state
                    got2, cats2, _ = run_query(insts[i], inner)
                    compare(i, inner, rk, got2, cats2, f"step {step}: after the call was interrupted at {inj.where}")
                    after_query(i, rk, f"step {step}: after interrupt at {inj.where}")
                    abstract.append((i, "interrupt:" + inner["q"], "fired" if inj.fired else "not_reached"))
        for i, rk in enumerate(finals):
            do_checkpoint(i, rk, "end of session")
    except Violation as v:
        out.update(verdict="violation", signature={"check": v.check, **v.extra}, detail=v.detail)
    out["abstract_hash"] = hashlib.sha256(json.dumps(abstract).encode()).hexdigest()[:16]
    out["nontrivial"] = (stats["mutations"] + stats["interrupt_fired"] + stats["reparse"] + stats["consumes"] > 0
                         or len(case["instances"]) > 1)
    out["op_kinds"] = sorted({f"{a[1]}:{a[2]}" for a in abstract})
    out["log_digest"] = hashlib.sha256(json.dumps([abstract, stats], sort_keys=True).encode()).hexdigest()
    return out


def _clip(v, n=500):
    s = json.dumps(v)
    return v if len(s) <= n else s[:n] + "..."


# ------------------------------------------------------------------ seeded scheduler
PRINT_KW = [
    {}, {"print_model": False}, {"display_photos_keyword": False}, {"ascending": True}, {"normalize": True},
    {"scale": 0.5}, {"scale": 1.0}, {"scale": 2.0}, {"normalize": True, "scale": 0.5}, {"ascending": True, "scale": 0.3},
    {"print_model": False, "normalize": True}, {"pdg_name": True},
]


def gen_session(rng: random.Random, cfg: dict | None = None) -> dict:
    cfg = cfg or {}
    n_docs = rng.choice([1, 1, 2, 2])
    docs = []
    custom_used = []
    t_names = decgen.tables()
    name_pool = [rng.choice(t_names["conj_names"] if rng.random() < 0.6 else t_names["names"]) for _ in range(8)]
    for _ in range(n_docs):
        custom = rng.sample(CUSTOM_MODELS, rng.randint(1, 2)) if rng.random() < 0.35 else []
        custom_used.append(custom)
        docs.append(decgen.generate(rng, {"max_tables": cfg.get("max_tables", 6), "custom_models": custom, "name_pool": name_pool}))
    if cfg.get("extra_docs"):
        for d in cfg["extra_docs"]:
            docs.append(d)
            custom_used.append([])
    n_inst = rng.choice([1, 1, 2, 2, 3])
    instances = []
    for _ in range(n_inst):
        di = rng.randrange(len(docs))
        raw = bool(docs[di].get("meta", {}).get("raw"))
        knobs = decpack.draw_knobs(rng, raw=raw) if rng.random() < 0.5 else {"mode": rng.choice(["string", "files"])}
        knobs["fault"] = None
        instances.append({"doc": di, "dseed": rng.getrandbits(32), "knobs": knobs})
    names_of = []
    for inst in instances:
        meta = docs[inst["doc"]].get("meta", {})
        ms = list(meta.get("mothers", [])) + [c[0] for c in meta.get("copies", [])] + list(meta.get("cdecays", []))
        if meta.get("raw"):
            ms = list(meta.get("mothers", []))
        names_of.append(ms or ["D0"])
    # swarm: which operation kinds this session uses
    w = {k: rng.choice([0, 1, 1, 2, 3]) for k in ("q_table", "q_global", "print", "chains", "expand", "mutate", "consume", "interrupt",
                                                   "checkpoint", "reparse", "grammar", "late_models", "misc")}
    w["q_table"] = max(w["q_table"], 1)
    n_steps = rng.randint(4, cfg.get("max_steps", 40))
    ops = []
    parsed = [False] * n_inst

    def mother(i):
        return rng.choice(names_of[i]) if rng.random() < 0.9 else rng.choice(["NoSuchParticle", "pi0", "D0"])

    def stable(i):
        r = rng.random()
        if r < 0.4:
            return []
        return sorted(set(rng.sample(names_of[i], min(len(names_of[i]), rng.randint(1, 3)))) | ({"pi0"} if r > 0.8 else set()))

    def a_query(i):
        kinds = [k for k in ("q_table", "q_global", "print", "chains", "expand", "misc") if w[k] > 0]
        k = rng.choices(kinds, [w[x] for x in kinds])[0]
        if k == "q_table":
            q = rng.choice(["list_decay_mother_names", "number_of_decays", "list_decay_modes"])
            if q == "list_decay_modes":
                kw = {"pdg_name": True} if rng.random() < 0.1 else {}
                return {"op": "q", "p": i, "q": q, "a": [mother(i)], "kw": kw}
            return {"op": "q", "p": i, "q": q}
        if k == "q_global":
            return {"op": "q", "p": i, "q": rng.choice(GLOBAL_QUERIES)}
        if k == "print":
            return {"op": "q", "p": i, "q": "print_decay_modes", "a": [mother(i)], "kw": dict(rng.choice(PRINT_KW))}
        if k == "chains":
            return {"op": "q", "p": i, "q": "build_decay_chains", "a": [mother(i), stable(i)]}
        if k == "expand":
            return {"op": "q", "p": i, "q": "expand_decay_modes", "a": [mother(i)]}
        return {"op": "q", "p": i, "q": rng.choice(["repr", "str", "grammar_loaded", "grammar", "grammar_info"])}

    # opening moves per instance: things a user may do before parse()
    order = list(range(n_inst))
    rng.shuffle(order)
    for i in order:
        custom = custom_used[instances[i]["doc"]]
        pre = []
        if w["grammar"] and rng.random() < 0.5:
            pre.append({"op": "q", "p": i, "q": rng.choice(["grammar", "grammar_info", "grammar_loaded"])})
        if custom:
            r = rng.random()
            if r < 0.6:
                pre.append({"op": "load_models", "p": i, "models": list(custom)})
            elif r < 0.85:  # registered one call at a time
                for m in custom:
                    pre.append({"op": "load_models", "p": i, "models": [m]})
            # else: never registered - parse must fail the same way in the replica
            if rng.random() < 0.3:
                rng.shuffle(pre)
        elif w["late_models"] and rng.random() < 0.3:
            pre.append({"op": "load_models", "p": i, "models": [rng.choice(CUSTOM_MODELS)]})
        if rng.random() < 0.25:
            pre.append(a_query(i))  # before parse: must raise DecFileNotParsed like a fresh instance
        ops.extend(pre)
        ops.append({"op": "parse", "p": i, "cc": rng.random() < 0.75})
        parsed[i] = True
    while len(ops) < n_steps:
        i = rng.randrange(n_inst)
        kinds = ["query"] * 6 + [k for k in ("mutate", "consume", "interrupt", "checkpoint", "reparse", "late_models") for _ in range(w[k])]
        k = rng.choice(kinds)
        if k == "query":
            ops.append(a_query(i))
        elif k == "mutate":
            ops.append(a_query(i))
            ops.append({"op": "mutate", "seed": rng.getrandbits(32)})
        elif k == "consume":
            ops.append({"op": "consume", "p": i, "m": mother(i), "how": rng.choice(["viewer", "from_dict", "expand"])})
        elif k == "interrupt":
            r = rng.random()
            if r < 0.2:
                inner = {"op": "parse", "p": i, "cc": rng.random() < 0.75}
            elif r < 0.45:  # the query with the most in-flight arithmetic: rescaled printing
                inner = {"op": "q", "p": i, "q": "print_decay_modes", "a": [mother(i)],
                         "kw": dict(rng.choice([{"normalize": True}, {"scale": 0.5}, {"normalize": True, "print_model": False}, {"scale": 1.0, "ascending": True}]))}
            else:
                inner = a_query(i)
            # half of the kills land anywhere, half late in the call (after work has been done, before it is finished)
            frac = rng.random() if rng.random() < 0.5 else 1.0 - 0.4 * rng.random() ** 2
            op_ = {"op": "interrupt", "inner": inner, "frac": round(frac, 4)}
            if rng.random() < 0.3:
                # placement by phase: the k-th line event inside one named function of the parser
                op_["target"] = rng.choice(KILL_TARGETS)
                op_["k"] = int(10 ** rng.uniform(0.0, 1.5))
            ops.append(op_)
        elif k == "checkpoint":
            ops.append({"op": "checkpoint", "p": i})
        elif k == "reparse":
            if rng.random() < 0.25:
                ops.append({"op": "parse", "p": i, "cc": rng.random() < 0.7, "wfilter": "error"})  # process with warnings turned into errors
            else:
                ops.append({"op": "parse", "p": i, "cc": rng.random() < 0.7})
        elif k == "late_models":
            ops.append({"op": "load_models", "p": i, "models": [rng.choice(CUSTOM_MODELS + ["LATE_MODEL"])]})
    return {"docs": docs, "instances": instances, "ops": ops, "cross_fraction": cfg.get("cross_fraction", 0.1)}


def run_c08(args: dict) -> dict:
    """seeded: {"seed": int, "cfg": {...}}; explicit: a case (has "ops")."""
    if "ops" in args:
        case = args
    else:
        cfg = dict(args.get("cfg") or {})
        if cfg.get("extra_files"):
            docs = []
            for path in cfg["extra_files"]:
                with open(path, encoding="utf-8") as f:
                    d = decgen.raw_document(f.read())
                if d is not None:
                    d["meta"]["mothers"] = _raw_mothers(d)
                    d["meta"]["decay_mothers"] = _raw_mothers(d, ("Decay",))
                    docs.append(d)
            cfg["extra_docs"] = docs
        case = gen_session(random.Random(args["seed"]), cfg)
        if cfg.get("only_extra") and cfg.get("extra_docs"):
            n0 = len(case["docs"]) - len(cfg["extra_docs"])
            for inst in case["instances"]:
                inst["doc"] = n0 + (inst["doc"] % len(cfg["extra_docs"]))
    out = run_session(case)
    out["n_ops"] = len(case["ops"])
    out["n_instances"] = len(case["instances"])
    if out["verdict"] == "violation" or args.get("return_case"):
        out["case"] = case
    return out


def _raw_mothers(doc, kinds=("Decay", "CDecay")):
    ms = []
    for ln in doc["statements"][0]["lines"]:
        s = ln["raw"].split("#", 1)[0].split()
        if len(s) >= 2 and s[0] in kinds and s[1] not in ms:
            ms.append(s[1])
    return ms


# ------------------------------------------------------------------ shrinking
def candidates(case: dict):
    ops = case["ops"]
    n = len(ops)
    size = n // 2
    while size >= 1:
        for start in range(0, n, size):
            new = ops[:start] + ops[start + size :]
            if len(new) < n:
                yield {**case, "ops": new}
        size //= 2
    # interrupt -> plain inner op
    for i, op in enumerate(ops):
        if op["op"] == "interrupt":
            yield {**case, "ops": ops[:i] + [op["inner"]] + ops[i + 1 :]}
    # fewer instances (only those no op refers to)
    used = {o.get("p", o.get("inner", {}).get("p")) for o in ops}
    used.discard(None)
    insts = case["instances"]
    if len(insts) > 1:
        for i in range(len(insts) - 1, -1, -1):
            if i not in used:
                remap = {j: (j if j < i else j - 1) for j in range(len(insts))}
                new_ops = json.loads(json.dumps(ops))
                for o in new_ops:
                    if "p" in o:
                        o["p"] = remap[o["p"]]
                    if "inner" in o and "p" in o["inner"]:
                        o["inner"]["p"] = remap[o["inner"]["p"]]
                yield {**case, "instances": insts[:i] + insts[i + 1 :], "ops": new_ops}
    # plain delivery
    for i, inst in enumerate(insts):
        if inst.get("knobs") and inst["knobs"] != {"mode": "string", "fault": None}:
            yield {**case, "instances": insts[:i] + [{**inst, "knobs": {"mode": "string", "fault": None}}] + insts[i + 1 :]}
    # smaller documents
    for di, doc in enumerate(case["docs"]):
        stmts = doc["statements"]
        if doc.get("meta", {}).get("raw"):
            lines = stmts[0]["lines"]
            m = len(lines)
            size = m // 2
            while size >= 1:
                for start in range(0, m, size):
                    new = lines[:start] + lines[start + size :]
                    if len(new) < m:
                        yield {**case, "docs": case["docs"][:di] + [{"statements": [{"kind": "raw", "lines": new}], "meta": doc["meta"]}] + case["docs"][di + 1 :]}
                size //= 2
            continue
        m = len(stmts)
        size = m // 2
        while size >= 1:
            for start in range(0, m, size):
                new = stmts[:start] + stmts[start + size :]
                if len(new) < m:
                    yield {**case, "docs": case["docs"][:di] + [{**doc, "statements": new}] + case["docs"][di + 1 :]}
            size //= 2
        for si, st in enumerate(stmts):
            if st["kind"] == "decay" and len(st["lines"]) > 2:
                for li in range(1, len(st["lines"]) - 1):
                    st2 = {**st, "lines": st["lines"][:li] + st["lines"][li + 1 :]}
                    yield {**case, "docs": case["docs"][:di] + [{**doc, "statements": stmts[:si] + [st2] + stmts[si + 1 :]}] + case["docs"][di + 1 :]}
