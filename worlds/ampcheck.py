"""C19 oracles: read a model record out of both generated texts and compare.

Python side: the text is executed against the recording goofit module and the
record is read from the resulting objects.  C++ side: a tolerant pattern reader
of the generator's own templates.  Both yield the same record type."""

from __future__ import annotations

import re
import sys

from worlds import goofit_stub


class OracleFail(Exception):
    def __init__(self, check, detail):
        super().__init__(check)
        self.check, self.detail = check, detail


def num(x):
    if isinstance(x, bool):
        return x
    if isinstance(x, (int, float)):
        return float(x)
    s = str(x).strip()
    if s in ("true", "True"):
        return True
    if s in ("false", "False"):
        return False
    try:
        return float(s)
    except ValueError:
        return s


# ------------------------------------------------------------------ Python side
def exec_python(text: str, allow_missing=()):
    """Execute the generated script against the recording module -> namespace, list of injected symbols."""
    try:
        code = compile(text, "<generated goofit python>", "exec")
    except SyntaxError as e:
        raise OracleFail("python_output_is_valid_python", {"error": f"SyntaxError: {e.msg} line {e.lineno}", "line": (e.text or "")[:200]}) from None
    injected = []
    for _ in range(8):
        ns: dict = {"__name__": "generated"}
        for name in injected:
            ns[name] = goofit_stub.Variable(name, 0.0) if not name.endswith(("Arr", "f_scatt", "IS_poles")) else []
        old = sys.modules.get("goofit")
        sys.modules["goofit"] = goofit_stub.make_module()
        try:
            exec(code, ns)
            return ns, injected
        except NameError as e:
            missing = getattr(e, "name", None) or re.findall(r"name '(\w+)'", str(e))[0]
            if missing in allow_missing and missing not in injected:
                injected.append(missing)
                continue
            raise OracleFail("python_output_runs_against_goofit_api", {"error": f"NameError: {e}"}) from None
        except (AttributeError, TypeError) as e:
            raise OracleFail("python_output_runs_against_goofit_api", {"error": f"{type(e).__name__}: {e}"}) from None
        except Exception as e:
            raise OracleFail("python_output_runs_against_goofit_api", {"error": f"{type(e).__name__}: {e}"}) from None
        finally:
            if old is not None:
                sys.modules["goofit"] = old
            else:
                sys.modules.pop("goofit", None)
    raise OracleFail("python_output_runs_against_goofit_api", {"error": "too many missing symbols", "injected": injected})


def python_record(ns: dict) -> dict:
    V = goofit_stub.Variable
    ident = {}
    for k, v in ns.items():
        if k.startswith("__") or isinstance(v, type) or callable(v):
            continue
        if isinstance(v, (V, list)):
            ident.setdefault(id(v), k)

    def ref(x):
        if isinstance(x, V):
            return ident.get(id(x), f"<anonymous Variable {x.name!r}>")
        if isinstance(x, list):
            return ident.get(id(x), "<anonymous list>")
        if isinstance(x, goofit_stub.Const):
            return x.name
        if isinstance(x, tuple):
            return [num(y) for y in x]
        return num(x)

    rec = {"mass_constants": {}, "resonance_vars": {}, "parameters": [], "arrays": {}, "amplitudes": []}
    for k, v in ns.items():
        if k.startswith("__"):
            continue
        if isinstance(v, (int, float)) and not isinstance(v, bool):
            rec["mass_constants"][k] = float(v)
        elif isinstance(v, V):
            entry = {"var": k, "name": v.name, "value": float(v.value), "fixed": len(v.rest) == 0,
                     "error": float(v.rest[0]) if v.rest else None}
            if v.name == k and (k.endswith("_M") or k.endswith("_W")):
                rec["resonance_vars"][k] = {"name": v.name, "value": float(v.value)}
            else:
                rec["parameters"].append(entry)
        elif isinstance(v, list) and k not in ("line_factor_list", "spin_factor_list", "amplitudes_list") and all(isinstance(x, V) for x in v):
            rec["arrays"][k] = [ref(x) for x in v]
    rec["parameters"].sort(key=lambda e: e["var"])
    di = ns.get("DK3P_DI")
    if not isinstance(di, goofit_stub.DecayInfo4):
        raise OracleFail("python_output_runs_against_goofit_api", {"error": "DK3P_DI is not a DecayInfo4"})
    masses = di.particle_masses
    rev = {}
    for k, v in rec["mass_constants"].items():
        rev.setdefault(v, []).append(k)
    rec["particle_masses_values"] = [float(x) for x in (masses or ())]
    rec["meson_radius"] = num(di.meson_radius)
    amps = ns.get("amplitudes_list")
    rec["decayinfo_amplitudes_assigned"] = amps is not None and di.amplitudes is amps
    amps = amps or []
    for a in amps:
        def coeff(v):
            return {"name": v.name, "value": float(v.value), "fixed": len(v.rest) == 0, "error": float(v.rest[0]) if v.rest else None}

        rec["amplitudes"].append({
            "name": a.name, "coeff": [coeff(a.real), coeff(a.imag)], "n_perm": num(a.nperm),
            "spin_factors": [[s.kind.name, [int(i) for i in s.indices]] for s in a.spinfactors],
            "lineshapes": [{"kind": l.kind, "args": [ref(x) for x in l.args]} for l in a.lineshapes],
        })
    return rec


# ------------------------------------------------------------------ C++ side
def _split_top(s: str) -> list[str]:
    out, depth, cur, q = [], 0, [], False
    for ch in s:
        if ch == '"':
            q = not q
        if not q:
            if ch in "({[":
                depth += 1
            elif ch in ")}]":
                depth -= 1
            elif ch == "," and depth == 0:
                out.append("".join(cur).strip())
                cur = []
                continue
        cur.append(ch)
    tail = "".join(cur).strip()
    if tail:
        out.append(tail)
    return out


def _call_args(text: str, start: int, open_ch="(", close_ch=")"):
    """text[start] is the opening bracket; returns (inner text, index after the closing bracket)."""
    depth, q, i = 0, False, start
    while i < len(text):
        ch = text[i]
        if ch == '"':
            q = not q
        elif not q:
            if ch == open_ch:
                depth += 1
            elif ch == close_ch:
                depth -= 1
                if depth == 0:
                    return text[start + 1 : i], i + 1
        i += 1
    raise OracleFail("cpp_output_is_readable", {"error": "unbalanced brackets", "near": text[start : start + 120]})


def _tok(s: str):
    s = s.strip()
    if s.startswith('"') and s.endswith('"'):
        return s[1:-1]
    m = re.match(r"(?:\w+::)*spline_t\((.*)\)$", s)
    if m:
        return [num(x) for x in _split_top(m.group(1))]
    if "::" in s:
        s = s.split("::")[-1]
    return num(s)


def cpp_record(text: str) -> dict:
    body = text.split("*/", 1)[1] if "*/" in text else text
    lines = body.split("\n")
    rec = {"mass_constants": {}, "resonance_vars": {}, "parameters": [], "arrays": {}, "amplitudes": [], "decl_line": {}, "uses": []}
    section = None
    i = 0
    while i < len(lines):
        ln = lines[i]
        st = ln.strip()
        if st == "// Intro":
            section = "intro"
        elif st == "// Parameters":
            section = "pars"
        elif st == "// Lines":
            section = "lines"
            break
        m = re.match(r"\s*constexpr\s+fptype\s+(\w+)\s*\{\s*([^}\s]+)\s*\}\s*;", ln)
        if m:
            rec["mass_constants"][m.group(1)] = float(m.group(2))
            rec["decl_line"].setdefault(m.group(1), i)
        m = re.match(r"\s*Variable\s+(\w+)\s*\{\s*(.*)\}\s*;\s*$", ln)
        if m:
            args = _split_top(m.group(2))
            if not (2 <= len(args) <= 5):
                raise OracleFail("cpp_output_is_readable", {"error": "Variable with unexpected argument count", "line": ln})
            name, value = _tok(args[0]), float(args[1])
            var = m.group(1)
            rec["decl_line"].setdefault(var, i)
            if section == "intro":
                rec["resonance_vars"][var] = {"name": name, "value": value}
            else:
                rec["parameters"].append({"var": var, "name": name, "value": value, "fixed": len(args) == 2,
                                          "error": float(args[2]) if len(args) > 2 else None})
        m = re.match(r"\s*std::vector<Variable>\s+(\w+)\s*\{\{\s*$", ln)
        if m:
            j = i + 1
            items = []
            while j < len(lines) and not lines[j].strip().startswith("}}"):
                for it in lines[j].split(","):
                    if it.strip():
                        items.append(it.strip())
                        rec["uses"].append((it.strip(), j))
                j += 1
            rec["arrays"][m.group(1)] = items
            rec["decl_line"].setdefault(m.group(1), j)
            i = j
        m = re.match(r"\s*DK3P_DI\.meson_radius\s*=\s*([^;]+);", ln)
        if m:
            rec["meson_radius"] = num(m.group(1))
        m = re.match(r"\s*DK3P_DI\.particle_masses\s*=\s*\{(.*)\}\s*;", ln)
        if m:
            names = [x.strip() for x in m.group(1).split(",")]
            for n in names:
                rec["uses"].append((n, i))
            rec["particle_masses_names"] = names
        i += 1
    rec["parameters"].sort(key=lambda e: e["var"])
    rest = "\n".join(lines[i:])
    offset_line = i
    blocks = re.split(r"\n\s*// Line \d+\s*\n", "\n" + rest)
    pos_line = offset_line
    for bi, blk in enumerate(blocks):
        if bi == 0:
            pos_line += blk.count("\n")
            continue
        amp = {"spin_factors": [], "lineshapes": []}
        for m in re.finditer(r"new\s+SpinFactor\s*\(", blk):
            inner, _ = _call_args(blk, m.end() - 1)
            a = _split_top(inner)
            amp["spin_factors"].append([_tok(a[1]), [int(x) for x in a[2:]]])
        for m in re.finditer(r"new\s+Lineshapes::(\w+)\s*\(", blk):
            inner, _ = _call_args(blk, m.end() - 1)
            args = [_tok(a) for a in _split_top(inner)]
            amp["lineshapes"].append({"kind": m.group(1), "args": args})
            line_no = pos_line + blk[: m.start()].count("\n")
            for a in _split_top(inner):
                a = a.strip()
                if re.fullmatch(r"[A-Za-z_]\w*", a) and not re.fullmatch(r"M_\d\d(_\d)?|true|false", a):
                    rec["uses"].append((a, line_no))
        m = re.search(r"new\s+Amplitude\s*\{", blk)
        if not m:
            raise OracleFail("cpp_output_is_readable", {"error": "line block without Amplitude", "block": blk[:300]})
        inner, _ = _call_args(blk, m.end() - 1, "{", "}")
        a = _split_top(inner)
        if len(a) != 6:
            raise OracleFail("cpp_output_is_readable", {"error": "Amplitude with unexpected argument count", "args": a})
        amp["name"] = _tok(a[0])
        coeffs = []
        for c in a[1:3]:
            mm = re.match(r"mkvar\s*\((.*)\)\s*$", c, re.S)
            if not mm:
                raise OracleFail("cpp_output_is_readable", {"error": "coefficient is not mkvar(...)", "arg": c})
            ca = _split_top(mm.group(1))
            fixed = num(ca[1])
            coeffs.append({"name": _tok(ca[0]), "value": float(ca[2]), "fixed": bool(fixed), "error": None if fixed else float(ca[3])})
        amp["coeff"] = coeffs
        amp["n_perm"] = num(a[5])
        rec["amplitudes"].append(amp)
        pos_line += blk.count("\n") + 1
    return rec


# ------------------------------------------------------------------ comparison
def compare_records(cpp: dict, py: dict):
    """Raises OracleFail on the first disagreement between the two languages."""
    def need(cond, what, **detail):
        if not cond:
            raise OracleFail("languages_describe_same_model", {"what": what, **detail})

    need(cpp["mass_constants"] == py["mass_constants"], "mass constants", cpp=cpp["mass_constants"], py=py["mass_constants"])
    need(cpp["resonance_vars"] == py["resonance_vars"], "resonance mass/width variables",
         only_cpp=sorted(set(cpp["resonance_vars"]) - set(py["resonance_vars"])), only_py=sorted(set(py["resonance_vars"]) - set(cpp["resonance_vars"])))
    need(len(cpp["parameters"]) == len(py["parameters"]), "number of fit parameters", cpp=len(cpp["parameters"]), py=len(py["parameters"]))
    for a, b in zip(cpp["parameters"], py["parameters"]):
        need(a == b, "fit parameter", cpp=a, py=b)
    need(cpp["arrays"] == py["arrays"], "parameter arrays", cpp={k: v[:6] for k, v in cpp["arrays"].items()}, py={k: v[:6] for k, v in py["arrays"].items()})
    need(num(cpp.get("meson_radius")) == num(py.get("meson_radius")), "meson radius", cpp=cpp.get("meson_radius"), py=py.get("meson_radius"))
    names = cpp.get("particle_masses_names") or []
    vals = [cpp["mass_constants"].get(n) for n in names]
    need(vals == py.get("particle_masses_values"), "event type / particle_masses", cpp=names, cpp_values=vals, py_values=py.get("particle_masses_values"))
    need(len(cpp["amplitudes"]) == len(py["amplitudes"]), "number of amplitudes", cpp=len(cpp["amplitudes"]), py=len(py["amplitudes"]))
    for i, (a, b) in enumerate(zip(cpp["amplitudes"], py["amplitudes"])):
        need(a["name"] == b["name"], "amplitude name", index=i, cpp=a["name"], py=b["name"])
        for j in (0, 1):
            ca, cb = a["coeff"][j], b["coeff"][j]
            need(ca["name"] == cb["name"] and ca["value"] == cb["value"] and ca["fixed"] == cb["fixed"], "amplitude coefficient",
                 amplitude=a["name"], part="real" if j == 0 else "imaginary", cpp=ca, py=cb)
            if not ca["fixed"]:
                need(ca["error"] == cb["error"], "amplitude coefficient error", amplitude=a["name"], cpp=ca, py=cb)
        need(num(a["n_perm"]) == num(b["n_perm"]), "number of permutations", amplitude=a["name"], cpp=a["n_perm"], py=b["n_perm"])
        need(a["spin_factors"] == b["spin_factors"], "spin factors", amplitude=a["name"], cpp=a["spin_factors"][:4], py=b["spin_factors"][:4])
        need(len(a["lineshapes"]) == len(b["lineshapes"]), "number of lineshapes", amplitude=a["name"], cpp=len(a["lineshapes"]), py=len(b["lineshapes"]))
        for la, lb in zip(a["lineshapes"], b["lineshapes"]):
            need(la["kind"] == lb["kind"] and la["args"] == lb["args"], "lineshape", amplitude=a["name"], cpp=la, py=lb)


BUILTIN_CPP = {"line_factor_list", "spin_factor_list", "amplitudes_list", "DK3P_DI"}


def cpp_declared_before_use(cpp: dict, allow_missing=()):
    missing = []
    for name, line in cpp["uses"]:
        if name in BUILTIN_CPP:
            continue
        d = cpp["decl_line"].get(name)
        if d is None or d >= line:
            if name in allow_missing:
                missing.append(name)
                continue
            raise OracleFail("cpp_symbols_declared_before_use", {"symbol": name, "used_on_line": line, "declared_on_line": d})
    return sorted(set(missing))


def coefficient_names_distinct(rec: dict, lang: str):
    for a in rec["amplitudes"]:
        if a["coeff"][0]["name"] == a["coeff"][1]["name"]:
            raise OracleFail("coefficient_names_distinct", {"language": lang, "amplitude": a["name"], "name": a["coeff"][0]["name"]})
