"""Canonical snapshot of every public query of a parsed DecFileParser.

Ordered list of [query, args, outcome]; outcome is {"v": value} or
{"x": [exception type, first line of message]}; floats are written with repr,
enums by name, tuples as lists.  Warnings raised while taking the snapshot are
appended as ["warnings", [[category, count], ...]]."""

from __future__ import annotations

import contextlib
import enum
import io
import warnings


def jsonable(v):
    if isinstance(v, bool) or v is None or isinstance(v, str):
        return v
    if isinstance(v, enum.Enum):
        return f"{type(v).__name__}.{v.name}"
    if isinstance(v, int):
        return v
    if isinstance(v, float):
        return {"f": repr(v)}
    if isinstance(v, (list, tuple)):
        return [jsonable(x) for x in v]
    if isinstance(v, dict):
        return {"d": [[jsonable(k), jsonable(x)] for k, x in v.items()]}
    if isinstance(v, (set, frozenset)):
        return {"s": sorted(str(x) for x in v)}
    return {"r": repr(v)}


def outcome(fn, *a, **kw):
    try:
        return {"v": jsonable(fn(*a, **kw))}
    except Exception as e:
        msg = str(e).splitlines()[0] if str(e) else ""
        return {"x": [type(e).__name__, msg]}


def captured_print(p, *a, **kw):
    buf = io.StringIO()
    with contextlib.redirect_stdout(buf):
        p.print_decay_modes(*a, **kw)
    return buf.getvalue()


GLOBAL_QUERIES = [
    "dict_decays2copy", "dict_definitions", "dict_model_aliases", "dict_aliases", "dict_charge_conjugates",
    "get_particle_property_definitions", "dict_pythia_definitions", "dict_jetset_definitions",
    "dict_lineshape_settings", "list_lineshapePW_definitions", "global_photos_flag", "list_charge_conjugate_decays",
]


def path_count(p, mother, memo, depth=0):
    """Independent recursion on list_decay_modes: number of complete paths, or a
    large number when the tables are cyclic/deep (then expansion is skipped)."""
    if mother in memo:
        return memo[mother]
    if depth > 12:
        return 10**9
    memo[mother] = 10**9  # cycle guard
    try:
        modes = p.list_decay_modes(mother)
    except Exception:
        memo[mother] = 1
        return 1
    if not modes:
        memo[mother] = 1
        return 1
    total = 0
    for fs in modes:
        prod = 1
        for d in fs:
            prod *= path_count(p, d, memo, depth + 1)
            if prod > 10**6:
                break
        total += prod
        if total > 10**6:
            break
    memo[mother] = total
    return total


def snapshot(p, expand_limit: int = 60, with_expand: bool = True, with_chains: bool = True) -> list:
    snap = []
    with warnings.catch_warnings(record=True) as wlog:
        warnings.simplefilter("always")
        names = outcome(p.list_decay_mother_names)
        snap.append(["list_decay_mother_names", [], names])
        snap.append(["number_of_decays", [], outcome(lambda: p.number_of_decays)])
        mothers = []
        if "v" in names:
            seen = set()
            for m in names["v"]:
                if isinstance(m, str) and m not in seen:
                    seen.add(m)
                    mothers.append(m)
        memo: dict = {}
        for m in mothers:
            modes = outcome(p.list_decay_modes, m)
            snap.append(["list_decay_modes", [m], modes])
            daughters = []
            if "v" in modes:
                for fs in modes["v"]:
                    for d in fs:
                        if isinstance(d, str) and d not in daughters:
                            daughters.append(d)
            if with_chains:
                snap.append(["build_decay_chains", [m, "stable=all daughters"], outcome(p.build_decay_chains, m, list(daughters))])
            snap.append(["print_decay_modes", [m], outcome(captured_print, p, m)])
            if with_expand:
                try:
                    n = path_count(p, m, memo)
                except RecursionError:
                    n = 10**9
                if n <= expand_limit:
                    snap.append(["expand_decay_modes", [m], outcome(p.expand_decay_modes, m)])
        for q in GLOBAL_QUERIES:
            snap.append([q, [], outcome(getattr(p, q))])
    cats: dict = {}
    for w in wlog:
        cats[w.category.__name__] = cats.get(w.category.__name__, 0) + 1
    snap.append(["warnings", [], {"v": [list(x) for x in sorted(cats.items())]}])
    return snap


def first_difference(a: list, b: list):
    for i, (x, y) in enumerate(zip(a, b)):
        if x != y:
            return {"index": i, "query": x[0] if x[0] == y[0] else [x[0], y[0]], "args": x[1], "expected": _clip(x[2]), "got": _clip(y[2])}
    if len(a) != len(b):
        return {"index": min(len(a), len(b)), "query": "snapshot length", "args": [], "expected": len(a), "got": len(b)}
    return None


def _clip(v, n=400):
    s = repr(v)
    return s if len(s) <= n else s[:n] + "..."
