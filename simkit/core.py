"""Seeds, digests, delta-debugging, known findings, evidence and replay files."""

from __future__ import annotations

import hashlib
import json
import os
import random
import sys
import time

VERIF_DIR = os.path.dirname(os.path.dirname(os.path.abspath(__file__)))


def out_dir() -> str:
    """Where evidence/ and replays/ are written: /verif, unless a self-test
    redirects its scratch runs elsewhere so they cannot clobber real evidence."""
    return os.environ.get("VERIF_OUT_DIR") or VERIF_DIR


# ----------------------------------------------------------------- seeds
def verif_seed() -> int:
    try:
        return int(os.environ.get("VERIF_SEED", "0"))
    except ValueError:
        return 0


def run_seed(vseed: int, prop: str, tier: str, index: int, stream: str = "") -> int:
    h = hashlib.sha256(f"{vseed}/{prop}/{tier}/{stream}/{index}".encode()).digest()
    return int.from_bytes(h[:8], "big")


def rng_for(seed: int) -> random.Random:
    return random.Random(seed)


def digest(obj) -> str:
    return hashlib.sha256(json.dumps(obj, sort_keys=True, default=str).encode()).hexdigest()


def short(obj) -> str:
    return digest(obj)[:16]


# ----------------------------------------------------------------- ddmin
def ddmin(items: list, test, budget_evals: int = 400, deadline: float | None = None) -> list:
    """Classic ddmin: returns a 1-minimal (within budget) sublist on which
    test(sublist) is still True.  test is only called on strict sublists."""
    evals = [0]

    def ok(cand):
        if evals[0] >= budget_evals or (deadline is not None and time.monotonic() > deadline):
            return False
        evals[0] += 1
        return bool(test(cand))

    n = 2
    cur = list(items)
    while len(cur) >= 2:
        chunk = max(1, len(cur) // n)
        subsets = [cur[i : i + chunk] for i in range(0, len(cur), chunk)]
        reduced = False
        for i in range(len(subsets)):
            comp = [x for j, s in enumerate(subsets) if j != i for x in s]
            if comp and len(comp) < len(cur) and ok(comp):
                cur = comp
                n = max(n - 1, 2)
                reduced = True
                break
        if not reduced:
            if n >= len(cur):
                break
            n = min(len(cur), n * 2)
        if evals[0] >= budget_evals:
            break
    if len(cur) == 1 and ok([]):
        cur = []
    return cur


# ----------------------------------------------------------------- known findings
def load_known_findings() -> list[dict]:
    p = os.path.join(VERIF_DIR, "known_findings.json")
    if not os.path.exists(p):
        return []
    with open(p, encoding="utf-8") as f:
        return json.load(f).get("findings", [])


def match_known(prop: str, signature: dict) -> dict | None:
    """An open finding matches when every key of its 'match' object equals the
    same key of the violation signature.  Fixed entries suppress nothing."""
    for f in load_known_findings():
        if f.get("property") != prop or f.get("status") != "open":
            continue
        m = f.get("match") or {}
        if m and all(signature.get(k) == v for k, v in m.items()):
            return f
    return None


# ----------------------------------------------------------------- replay files
def write_replay(prop: str, name: str, body: dict) -> str:
    d = os.path.join(out_dir(), "replays")
    os.makedirs(d, exist_ok=True)
    path = os.path.join(d, f"{prop}-{name}.json")
    body = dict(body)
    body.setdefault("format", 1)
    body.setdefault("property", prop)
    with open(path, "w", encoding="utf-8") as f:
        json.dump(body, f, indent=1, sort_keys=True, default=str)
        f.write("\n")
    return path


def read_replay(path: str) -> dict:
    with open(path, encoding="utf-8") as f:
        return json.load(f)


# ----------------------------------------------------------------- evidence
class Evidence:
    def __init__(self, prop: str, tier: str, seed: int, level: str = "exploration"):
        self.prop = prop
        self.tier = tier
        self.seed = seed
        self.level = level
        self.t0 = time.monotonic()
        self.cov: dict = {"evaluations": 0, "distinct_nontrivial": 0, "rule": "", "samples": []}
        self.assumptions: list[str] = []
        self.violations = 0

    def write(self):
        wall = time.monotonic() - self.t0
        cov = dict(self.cov)
        ev = cov.get("evaluations", 0)
        cov.setdefault("runs_per_hour", int(ev / wall * 3600) if wall > 0 else 0)
        body = {
            "property_id": self.prop,
            "tier": self.tier,
            "seed": self.seed,
            "level": self.level,
            "coverage": cov,
            "assumptions": self.assumptions,
            "wall_s": round(wall, 2),
            "violations": self.violations,
        }
        d = os.path.join(out_dir(), "evidence")
        os.makedirs(d, exist_ok=True)
        path = os.path.join(d, f"{self.prop}.json")
        tmp = path + ".tmp"
        with open(tmp, "w", encoding="utf-8") as f:
            json.dump(body, f, indent=1, default=str)
            f.write("\n")
        os.replace(tmp, path)
        return path


def merge_counts(dst: dict, src: dict):
    for k, v in src.items():
        dst[k] = dst.get(k, 0) + v


def log(*a):
    print(*a, file=sys.stderr, flush=True)


# ----------------------------------------------------------------- generic shrinking
def shrink(case, candidates, test, budget_evals: int = 300, deadline: float | None = None):
    """Greedy hill-climb: candidates(case) yields strictly simpler cases (big
    reductions first); the first one on which test() still holds replaces the
    case and the scan restarts.  Returns (case, evaluations used)."""
    evals = 0
    cur = case
    improved = True
    while improved:
        improved = False
        for cand in candidates(cur):
            if evals >= budget_evals or (deadline is not None and time.monotonic() > deadline):
                return cur, evals
            evals += 1
            if test(cand):
                cur = cand
                improved = True
                break
    return cur, evals


# ----------------------------------------------------------------- reach of the anchored code
def mark_cover(jobs: list, every: int = 25, at_least: int = 8) -> int:
    """Ask for the reach probe on a deterministic sample of the jobs."""
    n = 0
    step = max(1, min(every, len(jobs) // max(1, at_least)))
    for i, j in enumerate(jobs):
        if i % step == 0:
            j["cover"] = True
            n += 1
    return n


def reach_report(prop: str, hits: set, src_root: str | None = None) -> dict:
    """Per anchored file of the property: executable lines, lines the sampled workload executed, functions never entered."""
    src_root = src_root or os.environ.get("VERIF_SRC_ROOT", "/repo/src")
    files = []
    with open(os.path.join(VERIF_DIR, "properties.jsonl"), encoding="utf-8") as f:
        for line in f:
            p = json.loads(line)
            if p["id"] == prop:
                files = [x for x in p["anchors"]["files"] if x.endswith(".py")]
    by_file: dict = {}
    for h in hits:
        rel, _, ln = h.rpartition(":")
        by_file.setdefault(rel, set()).add(int(ln))
    out = []
    for rel in files:
        short = rel.split("src/decaylanguage/", 1)[-1]
        path = os.path.join(src_root, "decaylanguage", short)
        try:
            with open(path, encoding="utf-8") as f:
                code = compile(f.read(), path, "exec")
        except Exception as e:  # noqa: BLE001
            out.append({"file": short, "error": str(e)})
            continue
        funcs = []

        def walk(co, qual):
            lines = {ln for _, _, ln in co.co_lines() if ln is not None and ln != co.co_firstlineno}
            if co.co_flags & 0x2:  # CO_NEWLOCALS: a function body (module and class bodies run at import, before any job)
                funcs.append((qual, co.co_firstlineno, lines))
            for c in co.co_consts:
                if hasattr(c, "co_lines"):
                    walk(c, (qual + "." if qual else "") + c.co_name)

        walk(code, "")
        got = by_file.get(short, set())
        exe = set().union(*[ls for _, _, ls in funcs]) if funcs else set()
        never = sorted(q for q, first, ls in funcs if q and ls and not (ls & got) and "<" not in q.split(".")[-1])
        out.append({"file": short, "executable_lines": len(exe), "lines_executed_by_sampled_runs": len(exe & got),
                    "functions_never_entered": never})
    return {"sampled_by": "sys.monitoring LINE events in a deterministic sample of the runs", "files": out}
