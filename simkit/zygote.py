"""Zygote server: a pristine interpreter that has imported decaylanguage and
does nothing else.  Every job is executed in a child os.fork()ed from it, so a
run always starts from the module state a user process has right after its
imports.  The zygote itself never executes repository code after import.

Protocol (line-delimited JSON):
  stdin  <- {"engine": "worlds.x", "func": "f", "args": {...}, "limit_s": 60}
  proto  -> {"ok": true, "out": ...} | {"ok": false, "kind": "exception"|"timeout"|"died", "detail": "..."}
The protocol stream is a dup of the original fd 1; fd 1 itself is pointed at
fd 2 so that nothing printed by the system under test can corrupt it.
"""

from __future__ import annotations

import faulthandler
import importlib
import json
import os
import select
import signal
import sys
import time
import traceback

VERIF_DIR = os.path.dirname(os.path.dirname(os.path.abspath(__file__)))


def _start_cover():
    """Reach probe: which lines of the package under test does this job execute?  sys.monitoring (independent of the
    sys.settrace fault injector); every location reports once and is then disabled, so the cost is negligible."""
    import decaylanguage

    prefix = os.path.dirname(os.path.realpath(decaylanguage.__file__)) + os.sep
    hits: set = set()
    mon = sys.monitoring
    try:
        mon.use_tool_id(mon.COVERAGE_ID, "verif-reach")
    except ValueError:
        return None

    def on_line(code, line):
        fn = code.co_filename
        if fn.startswith(prefix):
            hits.add(fn[len(prefix):] + ":" + str(line))
        return mon.DISABLE

    mon.register_callback(mon.COVERAGE_ID, mon.events.LINE, on_line)
    mon.set_events(mon.COVERAGE_ID, mon.events.LINE)
    return hits


def _run_in_child(job: dict) -> dict:
    limit = float(job.get("limit_s", 120))
    r, w = os.pipe()
    sys.stdout.flush()
    sys.stderr.flush()
    pid = os.fork()
    if pid == 0:
        # ---- child: the simulated user process ----
        status = 0
        try:
            os.close(r)
            faulthandler.dump_traceback_later(max(1.0, limit - 1.0), exit=False)
            hits = _start_cover() if job.get("cover") else None
            try:
                mod = importlib.import_module(job["engine"])
                out = getattr(mod, job["func"])(job.get("args") or {})
                resp = {"ok": True, "out": out}
                if hits is not None:
                    resp["cover"] = sorted(hits)
                payload = json.dumps(resp)
            except BaseException as e:  # harness failure, not a verdict
                payload = json.dumps(
                    {
                        "ok": False,
                        "kind": "exception",
                        "detail": f"{type(e).__name__}: {e}\n" + traceback.format_exc()[-4000:],
                    }
                )
            data = payload.encode()
            off = 0
            while off < len(data):
                off += os.write(w, data[off : off + 65536])
            os.close(w)
        except BaseException:
            status = 3
        finally:
            os._exit(status)
    # ---- zygote ----
    os.close(w)
    chunks = []
    deadline = time.monotonic() + limit
    timed_out = False
    while True:
        left = deadline - time.monotonic()
        if left <= 0:
            timed_out = True
            break
        ready, _, _ = select.select([r], [], [], min(left, 1.0))
        if ready:
            b = os.read(r, 1 << 20)
            if not b:
                break
            chunks.append(b)
    os.close(r)
    if timed_out:
        try:
            os.kill(pid, signal.SIGKILL)
        except ProcessLookupError:
            pass
    _, st = os.waitpid(pid, 0)
    if timed_out:
        return {"ok": False, "kind": "timeout", "detail": f"child exceeded {limit}s"}
    raw = b"".join(chunks)
    if not raw:
        return {"ok": False, "kind": "died", "detail": f"child exit status {st}, no payload"}
    try:
        return json.loads(raw)
    except Exception as e:  # pragma: no cover
        return {"ok": False, "kind": "died", "detail": f"bad payload: {e}"}


def main() -> None:
    src_root = os.environ.get("VERIF_SRC_ROOT", "/repo/src")
    sys.path.insert(0, VERIF_DIR)
    sys.path.insert(0, src_root)
    proto = os.fdopen(os.dup(1), "w")
    os.dup2(2, 1)
    sys.stdout = os.fdopen(1, "w", closefd=False)

    import decaylanguage  # noqa: F401
    import decaylanguage.modeling.ampgen2goofit  # noqa: F401
    import decaylanguage.decay.viewer  # noqa: F401
    import decaylanguage.__main__  # noqa: F401

    real = os.path.realpath(decaylanguage.__file__)
    if not real.startswith(os.path.realpath(src_root) + os.sep):
        proto.write(json.dumps({"ready": False, "detail": f"decaylanguage from {real}, wanted {src_root}"}) + "\n")
        proto.flush()
        return
    for m in filter(None, os.environ.get("VERIF_PRELOAD", "").split(",")):
        importlib.import_module(m)
    proto.write(
        json.dumps(
            {
                "ready": True,
                "pid": os.getpid(),
                "hashseed": os.environ.get("PYTHONHASHSEED"),
                "locale_encoding": __import__("locale").getencoding(),
                "src": real,
            }
        )
        + "\n"
    )
    proto.flush()
    for line in sys.stdin:
        line = line.strip()
        if not line:
            continue
        job = json.loads(line)
        if job.get("op") == "quit":
            break
        res = _run_in_child(job)
        proto.write(json.dumps(res) + "\n")
        proto.flush()


if __name__ == "__main__":
    main()
