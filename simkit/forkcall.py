"""Run a function in a forked child of the *current* process and get its
JSON-able result back.  Used by engines that need a pristine replica: the job
child forks the replica before it has executed any code of the system under
test itself, so the replica starts from the same post-import state."""

from __future__ import annotations

import json
import os
import select
import signal
import time
import traceback


class ForkCallError(RuntimeError):
    pass


def fork_call(fn, *args, limit_s: float = 120.0):
    r, w = os.pipe()
    pid = os.fork()
    if pid == 0:
        status = 0
        try:
            os.close(r)
            try:
                payload = json.dumps({"ok": True, "out": fn(*args)})
            except BaseException as e:
                payload = json.dumps({"ok": False, "detail": f"{type(e).__name__}: {e}\n{traceback.format_exc()[-3000:]}"})
            data = payload.encode()
            off = 0
            while off < len(data):
                off += os.write(w, data[off : off + 65536])
            os.close(w)
        except BaseException:
            status = 3
        finally:
            os._exit(status)
    os.close(w)
    chunks = []
    deadline = time.monotonic() + limit_s
    timed_out = False
    while True:
        left = deadline - time.monotonic()
        if left <= 0:
            timed_out = True
            break
        ready, _, _ = select.select([r], [], [], min(left, 1.0))
        if ready:
            b = os.read(r, 1 << 20)
            if not b:
                break
            chunks.append(b)
    os.close(r)
    if timed_out:
        try:
            os.kill(pid, signal.SIGKILL)
        except ProcessLookupError:
            pass
    os.waitpid(pid, 0)
    if timed_out:
        raise ForkCallError(f"replica exceeded {limit_s}s")
    raw = b"".join(chunks)
    if not raw:
        raise ForkCallError("replica died without a payload")
    res = json.loads(raw)
    if not res.get("ok"):
        raise ForkCallError(res.get("detail"))
    return res["out"]
