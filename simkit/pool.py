"""Pool of zygote servers driven from the (single-threaded in its decisions)
check process.  Jobs are an indexed list; results come back in the same index
order, so nothing about the outcome depends on which zygote ran which job or
on how many zygotes exist."""

from __future__ import annotations

import json
import os
import queue
import subprocess
import sys
import threading
import time

VERIF_DIR = os.path.dirname(os.path.dirname(os.path.abspath(__file__)))
PYTHON = "/venv/bin/python"


class HarnessError(RuntimeError):
    pass


class Zygote:
    def __init__(self, hashseed, src_root: str, preload: str):
        # a zygote key is "<PYTHONHASHSEED>" or "<PYTHONHASHSEED>@<variant>"; variants are further process configurations
        key = str(hashseed)
        hs, _, variant = key.partition("@")
        env = {
            "PATH": os.environ.get("PATH", "/usr/bin:/bin"),
            "HOME": os.environ.get("HOME", "/root"),
            "PYTHONHASHSEED": hs,
            "PYTHONDONTWRITEBYTECODE": "1",
            "OPENBLAS_NUM_THREADS": "1",
            "OMP_NUM_THREADS": "1",
            "MKL_NUM_THREADS": "1",
            "NO_COLOR": "1",
            "LC_ALL": "C.UTF-8",
            "VERIF_SRC_ROOT": src_root,
            "VERIF_PRELOAD": preload,
        }
        self.hashseed = hashseed
        argv = [PYTHON, "-X", "utf8", os.path.join(VERIF_DIR, "simkit", "zygote.py")]
        if variant == "clocale":
            # a process whose locale encoding is not UTF-8 (legacy code page / LC_ALL=C without coercion and without UTF-8 mode)
            env.update({"LC_ALL": "C", "LANG": "C", "PYTHONUTF8": "0", "PYTHONCOERCECLOCALE": "0", "PYTHONIOENCODING": "utf-8:backslashreplace"})
            argv = [PYTHON, os.path.join(VERIF_DIR, "simkit", "zygote.py")]
        elif variant == "optimize":
            # python -O: assert statements are compiled away in the simulated process (the harness itself does not rely on assert)
            argv = [PYTHON, "-O", "-X", "utf8", os.path.join(VERIF_DIR, "simkit", "zygote.py")]
        elif variant:
            raise ValueError(f"unknown zygote variant {variant!r}")
        self.proc = subprocess.Popen(
            argv,
            stdin=subprocess.PIPE,
            stdout=subprocess.PIPE,
            stderr=None,
            env=env,
            cwd=VERIF_DIR,
            text=True,
            bufsize=1,
        )
        self.info = None

    def wait_ready(self):
        line = self.proc.stdout.readline()
        if not line:
            raise HarnessError("zygote died during start-up")
        info = json.loads(line)
        if not info.get("ready"):
            raise HarnessError(f"zygote refused to start: {info}")
        self.info = info

    def call(self, job: dict) -> dict:
        self.proc.stdin.write(json.dumps(job) + "\n")
        self.proc.stdin.flush()
        line = self.proc.stdout.readline()
        if not line:
            raise HarnessError("zygote died while serving a job")
        return json.loads(line)

    def close(self):
        try:
            self.proc.stdin.write(json.dumps({"op": "quit"}) + "\n")
            self.proc.stdin.flush()
            self.proc.stdin.close()
        except Exception:
            pass
        try:
            self.proc.wait(timeout=5)
        except Exception:
            self.proc.kill()


class ZygotePool:
    def __init__(self, workers: int = 16, hashseeds=None, src_root: str | None = None, preload: str = ""):
        self.src_root = src_root or os.environ.get("VERIF_SRC_ROOT", "/repo/src")
        if hashseeds is None:
            # engines for which the interpreter hash seed is not a world parameter run under one value; the
            # determinism self-test overrides it to show the outcome does not depend on it
            hashseeds = (int(os.environ.get("VERIF_ZYGOTE_HASHSEED", "0")),)
        self.hashseeds = list(hashseeds)
        self.workers = max(workers, len(self.hashseeds))
        self.zygotes: list[Zygote] = []
        for i in range(self.workers):
            self.zygotes.append(Zygote(self.hashseeds[i % len(self.hashseeds)], self.src_root, preload))
        for z in self.zygotes:
            z.wait_ready()
        self.jobs_done = 0
        self.cover_hits: set = set()  # union of the reach-probe results of jobs submitted with "cover": True

    def map(self, jobs: list[dict], progress: str | None = None) -> list[dict]:
        """Run all jobs; job["hashseed"] (optional) pins a job to zygotes of
        that hash seed.  Returns results in job order."""
        results: list = [None] * len(jobs)
        queues = {h: queue.Queue() for h in self.hashseeds}
        anyq = queue.Queue()
        for i, j in enumerate(jobs):
            h = j.get("hashseed")
            if h is None:
                anyq.put(i)
            else:
                if h not in queues:
                    raise HarnessError(f"no zygote with hash seed {h}")
                queues[h].put(i)
        errors: list = []
        t0 = time.monotonic()
        done = [0]
        lock = threading.Lock()

        def worker(z: Zygote):
            while not errors:
                try:
                    i = queues[z.hashseed].get_nowait()
                except queue.Empty:
                    try:
                        i = anyq.get_nowait()
                    except queue.Empty:
                        return
                try:
                    results[i] = z.call(jobs[i])
                except Exception as e:  # zygote gone
                    errors.append(e)
                    return
                with lock:
                    done[0] += 1
                    if progress and done[0] % max(1, len(jobs) // 10) == 0:
                        print(
                            f"[{progress}] {done[0]}/{len(jobs)} jobs, {time.monotonic()-t0:.0f}s",
                            file=sys.stderr,
                            flush=True,
                        )

        threads = [threading.Thread(target=worker, args=(z,), daemon=True) for z in self.zygotes]
        for t in threads:
            t.start()
        for t in threads:
            t.join()
        if errors:
            raise HarnessError(str(errors[0]))
        if any(r is None for r in results):
            raise HarnessError("some jobs were never executed")
        for r in results:
            if isinstance(r, dict) and r.get("cover"):
                self.cover_hits.update(r.pop("cover"))
        self.jobs_done += len(jobs)
        return results

    def call(self, job: dict) -> dict:
        return self.map([job])[0]

    def close(self):
        for z in self.zygotes:
            z.close()

    def __enter__(self):
        return self

    def __exit__(self, *a):
        self.close()


def unwrap(res: dict, what: str = "job"):
    """Result of a job that must not fail for harness reasons."""
    if not res.get("ok"):
        raise HarnessError(f"{what}: {res.get('kind')}: {res.get('detail')}")
    return res["out"]
