"""Exception-at-an-arbitrary-instant fault injection through sys.settrace.

A local trace function is installed only on frames whose code lives in the
decaylanguage package under test; at the k-th 'line' event inside the traced
call SimFault is raised *in that frame*.  SimFault derives from BaseException
(like KeyboardInterrupt) so that the library's own `except Exception` blocks
do not absorb it and silently change a result."""

from __future__ import annotations

import os
import sys


class SimFault(BaseException):
    pass


def _pkg_prefix() -> str:
    import decaylanguage

    return os.path.dirname(os.path.realpath(decaylanguage.__file__)) + os.sep


class Injector:
    """k-th line event inside the package; with `target`, k-th line event inside frames of the function named `target`
    (fault placement by phase: a short but state-changing function gets its share of kills however long the rest of the call is)."""

    def __init__(self, k: int | None = None, target: str | None = None):
        self.k = k
        self.target = target
        self.count = 0
        self.fired = False
        self.where = None
        self.prefix = _pkg_prefix()

    def _global(self, frame, event, arg):
        if frame.f_code.co_filename.startswith(self.prefix):
            return self._local
        return None

    def _local(self, frame, event, arg):
        if event == "line":
            if self.target is not None and frame.f_code.co_name != self.target:
                return self._local
            self.count += 1
            if self.k is not None and not self.fired and self.count == self.k:
                self.fired = True
                self.where = [os.path.basename(frame.f_code.co_filename), frame.f_lineno, frame.f_code.co_name]
                raise SimFault(f"injected at {self.where}")
        return self._local

    def run(self, fn, *a, **kw):
        old = sys.gettrace()
        sys.settrace(self._global)
        try:
            return fn(*a, **kw)
        finally:
            sys.settrace(old)


class BystanderInjector(Injector):
    """At the k-th line event inside the package another party gets the processor for one action (`action()`), then the
    traced call goes on: a deterministic pre-emption point for a second caller thread whose whole turn is that action."""

    def __init__(self, k: int, action):
        super().__init__(None)
        self.at = k
        self.action = action

    def _local(self, frame, event, arg):
        if event == "line":
            self.count += 1
            if not self.fired and self.count == self.at:
                self.fired = True
                self.where = [os.path.basename(frame.f_code.co_filename), frame.f_lineno, frame.f_code.co_name]
                self.action()
        return self._local


def count_lines(fn, *a, **kw) -> tuple[int, object, BaseException | None]:
    inj = Injector(None)
    try:
        v = inj.run(fn, *a, **kw)
        return inj.count, v, None
    except Exception as e:
        return inj.count, None, e


class MutationInjector(Injector):
    """Kill right after the j-th change of process-level state during the call.

    `probe()` returns a cheap, hashable digest of the state that outlives a call (class attributes, module globals, tables of
    dependencies).  It is evaluated at every line event inside the package; when it differs from the previous value a mutation
    has just happened, and at the j-th one SimFault is raised - i.e. at the first instant at which that piece of in-flight
    state exists.  This places faults where a call has just written something it may intend to undo or complete later,
    however short that window is compared with the rest of the call."""

    def __init__(self, j: int, probe):
        super().__init__(None)
        self.j = j
        self.probe = probe
        self.mutations = 0
        self.last = None

    def _local(self, frame, event, arg):
        if event == "line":
            self.count += 1
            cur = self.probe()
            if self.last is None:
                self.last = cur
            elif cur != self.last:
                self.last = cur
                self.mutations += 1
                if not self.fired and self.mutations == self.j:
                    self.fired = True
                    self.where = [os.path.basename(frame.f_code.co_filename), frame.f_lineno, frame.f_code.co_name, f"mutation {self.j}"]
                    raise SimFault(f"injected at {self.where}")
        return self._local
