"""Simulated file system for paths under /simfs/.

CPython's real text stack (TextIOWrapper over BufferedReader: decoding, BOM
handling through the codec, universal newlines) runs over a raw layer the
simulator owns: SimRaw.readinto returns a seeded/short number of bytes, can
raise EIO at a byte offset, and the table can drop a file right after
is_file() answered True.  Every way the library could reasonably reach a file
(pathlib.Path.open/is_file/exists, builtins.open, io.open, os.path.isfile/
exists) is routed here for the reserved prefix and left alone otherwise."""

from __future__ import annotations

import builtins
import errno
import io
import os
import pathlib
import stat as stat_mod
import zlib

PREFIX = "/simfs/"


class SimRaw(io.RawIOBase):
    def __init__(self, fs, name: str, data: bytes):
        super().__init__()
        self.fs = fs
        self.name_ = name
        self.data = data
        self.pos = 0

    def readable(self):
        return True

    def readinto(self, b):
        fs = self.fs
        fault = fs.fault
        n = len(b)
        if fs.chunk:
            n = min(n, fs.chunk)
        if fault and fault["kind"] == "eio" and fault["file"] == self.name_ and not (fault.get("once") and fs.eio_spent):
            if self.pos >= fault["offset"]:
                fs.stats["eio_fired"] += 1
                fs.eio_spent = True  # a transient error ("once") is over after it has been reported; a persistent one repeats
                raise OSError(errno.EIO, "simulated I/O error", self.name_)
            n = min(n, fault["offset"] - self.pos)
        chunk = self.data[self.pos : self.pos + n]
        if 0 < len(chunk) < len(b):
            fs.stats["short_reads"] += 1
        b[: len(chunk)] = chunk
        self.pos += len(chunk)
        fs.stats["raw_reads"] += 1
        return len(chunk)


class SimFS:
    def __init__(self):
        self.files: dict[str, bytes] = {}
        self.chunk = 0
        self.fault = None
        self.eio_spent = False
        self.stats = {"is_file": 0, "stat": 0, "opens": 0, "raw_reads": 0, "short_reads": 0, "eio_fired": 0, "vanish_fired": 0, "interrupt_fired": 0}
        self._installed = False
        self._answered_true: set = set()

    # ---- table
    def reset(self, files: dict[str, bytes], chunk: int = 0, fault=None):
        self.files = dict(files)
        self.chunk = chunk
        self.fault = fault
        self.eio_spent = False
        self._answered_true = set()

    @staticmethod
    def _key(p):
        try:
            s = os.fspath(p)
        except TypeError:
            return None
        if isinstance(s, bytes):
            s = s.decode("utf-8", "surrogateescape")
        return s if s.startswith(PREFIX) else None

    def _is_file(self, key):
        self.stats["is_file"] += 1
        ok = key in self.files
        if ok:
            self._answered_true.add(key)
        return ok

    def _stat(self, key):
        """stat()/lstat() of a simulated path: regular files from the table, the reserved directories above them, else ENOENT."""
        self.stats["stat"] = self.stats.get("stat", 0) + 1
        if key in self.files:
            self._answered_true.add(key)
            size = len(self.files[key])
            t = 1_600_000_000
            return os.stat_result((stat_mod.S_IFREG | 0o644, zlib.crc32(key.encode("utf-8", "surrogateescape")) + 2, 99, 1, 0, 0, size, t, t, t, float(t), float(t), float(t), t * 10 ** 9, t * 10 ** 9, t * 10 ** 9))
        if any(f.startswith(key.rstrip("/") + "/") for f in self.files) or key.rstrip("/") == PREFIX.rstrip("/"):
            return os.stat_result((stat_mod.S_IFDIR | 0o755, 1, 99, 2, 0, 0, 4096, 1_600_000_000, 1_600_000_000, 1_600_000_000))
        raise FileNotFoundError(errno.ENOENT, "No such file or directory", key)

    def _open(self, key, mode="r", buffering=-1, encoding=None, errors=None, newline=None):
        self.stats["opens"] += 1
        if any(c in mode for c in "wax+"):
            raise PermissionError(errno.EACCES, "simulated file system is read-only", key)
        f = self.fault
        if f and f["kind"] == "vanish" and f["file"] == key and key in self._answered_true:
            self.stats["vanish_fired"] += 1
            self.files.pop(key, None)
        if key not in self.files:
            raise FileNotFoundError(errno.ENOENT, "No such file or directory", key)
        raw = SimRaw(self, key, self.files[key])
        buf = io.BufferedReader(raw)
        if "b" in mode:
            return buf
        return io.TextIOWrapper(buf, encoding=encoding, errors=errors, newline=newline)

    # ---- seams
    def install(self):
        if self._installed:
            return
        self._installed = True
        fs = self
        o_path_open, o_is_file, o_exists = pathlib.Path.open, pathlib.Path.is_file, pathlib.Path.exists
        o_open, o_io_open = builtins.open, io.open
        o_isfile, o_pexists = os.path.isfile, os.path.exists

        def path_open(self, mode="r", buffering=-1, encoding=None, errors=None, newline=None):
            k = fs._key(self)
            if k is None:
                return o_path_open(self, mode, buffering, encoding, errors, newline)
            return fs._open(k, mode, buffering, encoding, errors, newline)

        def path_is_file(self, *a, **kw):
            k = fs._key(self)
            return o_is_file(self, *a, **kw) if k is None else fs._is_file(k)

        def path_exists(self, *a, **kw):
            k = fs._key(self)
            return o_exists(self, *a, **kw) if k is None else fs._is_file(k)

        def b_open(file, mode="r", buffering=-1, encoding=None, errors=None, newline=None, closefd=True, opener=None):
            k = fs._key(file) if not isinstance(file, int) else None
            if k is None:
                return o_open(file, mode, buffering, encoding, errors, newline, closefd, opener)
            return fs._open(k, mode, buffering, encoding, errors, newline)

        def p_isfile(p):
            k = fs._key(p) if not isinstance(p, int) else None
            return o_isfile(p) if k is None else fs._is_file(k)

        def p_exists(p):
            k = fs._key(p) if not isinstance(p, int) else None
            return o_pexists(p) if k is None else fs._is_file(k)

        o_stat, o_lstat = os.stat, os.lstat

        def s_stat(path, *a, **kw):
            k = fs._key(path) if not isinstance(path, int) else None
            if k is None:
                return o_stat(path, *a, **kw)
            return fs._stat(k)

        def s_lstat(path, *a, **kw):
            k = fs._key(path) if not isinstance(path, int) else None
            if k is None:
                return o_lstat(path, *a, **kw)
            return fs._stat(k)

        os.stat = s_stat
        os.lstat = s_lstat
        pathlib.Path.open = path_open
        pathlib.Path.is_file = path_is_file
        pathlib.Path.exists = path_exists
        builtins.open = b_open
        io.open = b_open
        os.path.isfile = p_isfile
        os.path.exists = p_exists


class PathLikeName:
    """A third path flavour: os.PathLike that is neither str nor Path."""

    def __init__(self, s):
        self._s = s

    def __fspath__(self):
        return self._s

    def __repr__(self):
        return f"PathLikeName({self._s!r})"
