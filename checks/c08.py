"""C08 — copied and derived tables are independent; queries never change the parser."""

from __future__ import annotations

import glob
import hashlib
import os

from checks.common import Reporter, confirm_minimise_report, default_workers, run_regressions
from simkit.core import mark_cover, reach_report, Evidence, log, merge_counts, run_seed
from simkit.pool import ZygotePool, unwrap
from worlds import dechist

ENGINE = "worlds.dechist"
FUNC = "run_c08"
PROP = "C08"

TIERS = {
    "quick": {"sessions": 800, "file_sessions": 2, "master_sessions": 0, "max_steps": 40},
    "thorough": {"sessions": 24000, "file_sessions": 40, "master_sessions": 6, "max_steps": 40},
}


def known_keys(case, out):
    ops = case.get("ops", [])
    kinds = [o["op"] for o in ops]
    first_parse = kinds.index("parse") if "parse" in kinds else len(kinds)
    grammar_before = any(o["op"] == "q" and o.get("q") in ("grammar", "grammar_info") for o in ops[:first_parse])
    return {"n_ops": len(ops), "registration_after_grammar_access": bool(
        "load_models" in kinds and (grammar_before or kinds.index("load_models") > first_parse))}


def main(tier: str, seed: int, opts) -> int:
    cfg = dict(TIERS[tier])
    for k in list(cfg):
        if k in opts:
            cfg[k] = int(opts[k])
    ev = Evidence(PROP, tier, seed)
    rep = Reporter(PROP)
    jobs, labels = [], []
    cross = 1.0 if tier == "thorough" else 0.1
    for i in range(cfg["sessions"]):
        jobs.append({"engine": ENGINE, "func": FUNC, "limit_s": 300,
                     "args": {"seed": run_seed(seed, PROP, tier, i, "gen"), "cfg": {"max_steps": cfg["max_steps"], "cross_fraction": cross}}})
        labels.append(("gen", i))
    fi = 0
    for path in sorted(glob.glob("/repo/tests/data/*.dec")):
        for _ in range(cfg["file_sessions"]):
            jobs.append({"engine": ENGINE, "func": FUNC, "limit_s": 300,
                         "args": {"seed": run_seed(seed, PROP, tier, fi, "file"),
                                  "cfg": {"max_steps": 24, "extra_files": [path], "only_extra": True, "cross_fraction": 0.1}}})
            labels.append(("file:" + os.path.basename(path), fi))
            fi += 1
    src = os.environ.get("VERIF_SRC_ROOT", "/repo/src")
    for path in sorted(glob.glob(os.path.join(src, "decaylanguage", "data", "*.DEC")))[:1]:
        for _ in range(cfg["master_sessions"]):
            jobs.append({"engine": ENGINE, "func": FUNC, "limit_s": 1500,
                         "args": {"seed": run_seed(seed, PROP, tier, fi, "master"), "replica_limit_s": 600,
                                  "cfg": {"max_steps": 12, "extra_files": [path], "only_extra": True, "cross_fraction": 0.02}}})
            labels.append(("master:" + os.path.basename(path), fi))
            fi += 1
    log(f"[C08] VERIF_SEED={seed} tier={tier} sessions={len(jobs)}")
    with ZygotePool(workers=default_workers(), preload="worlds.dechist") as pool:
        n_reg = run_regressions(rep, pool, PROP)
        mark_cover(jobs)
        raw_results = pool.map(jobs, progress="C08")
        stats: dict = {}
        hashes, nthashes, opkinds = set(), set(), set()
        ops_total = 0
        by_source: dict = {}
        digest = hashlib.sha256()
        seen = set()
        harness_timeouts = 0
        discards = 0
        samples = []
        for (label, idx), job, rr in zip(labels, jobs, raw_results):
            if not rr.get("ok") and rr.get("kind") == "timeout" and label.startswith(("file", "master")):
                harness_timeouts += 1  # very large shipped files may exceed the budget: counted, never a verdict
                continue
            r = unwrap(rr, f"C08 session {label} {idx}")
            digest.update((r.get("log_digest") or "-").encode())
            if r["verdict"] == "discard":
                discards += 1
                continue
            merge_counts(stats, r["stats"])
            ops_total += r["n_ops"]
            src_ = label.split(":")[0]
            by_source[src_] = by_source.get(src_, 0) + 1
            if "abstract_hash" in r:
                hashes.add(r["abstract_hash"])
                if r.get("nontrivial"):
                    nthashes.add(r["abstract_hash"])
                opkinds.update(r.get("op_kinds", []))
            if r["verdict"] == "violation":
                sig = r["signature"]
                key = (sig["check"], sig.get("q"), sig.get("kind"))
                if key in seen or len(seen) >= 5:
                    continue
                seen.add(key)
                confirm_minimise_report(rep, pool, ENGINE, r["case"], r, f"{seed}-{label.replace(':', '_')}-{idx}",
                                        candidates=dechist.candidates, func=FUNC, known_keys=known_keys,
                                        meta={"verif_seed": seed, "stream": label, "run_index": idx, "tier": tier},
                                        budget_evals=900, budget_s=300, limit_s=300)
        s0 = unwrap(pool.call({"engine": ENGINE, "func": FUNC, "args": {"seed": run_seed(seed, PROP, tier, 0, "gen"), "return_case": True,
                                                                         "cfg": {"max_steps": 12}}}))
        if s0.get("case"):
            from worlds.decgen import canonical_text

            samples.append({"documents": [canonical_text(d)[:1200] for d in s0["case"]["docs"]],
                            "instances": s0["case"]["instances"], "ops": s0["case"]["ops"]})
    sessions = sum(by_source.values())
    cover_hits = set(pool.cover_hits)
    ev.cov.update({
        "evaluations": sessions,
        "distinct_nontrivial": len(nthashes),
        "rule": "one evaluation = one session (1-3 parser instances, up to 40 operations: queries with arguments, parse/re-parse, "
                "registrations, in-place mutation of returned values, consumers, interrupted calls) compared operation by operation "
                "with pristine replicas; distinct = distinct sequences of (instance, operation kind, outcome class); non-trivial = the "
                "session has a mutation, a fired interrupt, a re-parse, a consumer or more than one instance",
        "samples": samples,
        "operations_executed": ops_total,
        "distinct_abstract_histories": len(hashes),
        "sessions_by_source": by_source,
        "counters": stats,
        "fault_kinds_fired": {"interrupt_inside_query_or_parse": stats.get("interrupt_fired", 0),
                              "interrupted_parse_then_reparse": stats.get("interrupted_parse", 0),
                              "in_place_mutation_of_returned_value": stats.get("mutations", 0),
                              "consumer_rewrote_returned_chain": stats.get("consumes", 0),
                              "reparse_attempt_under_warnings_as_errors": stats.get("strict_reparse_attempts", 0)},
        "operation_outcome_kinds_reached": sorted(opkinds),
        "file_sessions_over_time_budget": harness_timeouts,
        "sessions_discarded_constructor_refused_delivery": discards,
        "regression_replays_run": n_reg,
        "anchored_code_reach": reach_report(PROP, cover_hits),
        "log_digest": digest.hexdigest(),
        "components": {"real": ["decaylanguage.dec.dec (everything)", "decfile.lark", "lark", "particle", "DecayChainViewer / DecayChain.from_dict / _expand_decay_modes as consumers"],
                       "simulated": ["the caller (operation schedule)", "file system under /simfs for instances built from files", "exceptions injected via sys.settrace"],
                       "reference": ["pristine replicas: fresh instances in children forked before the session ran any library code; "
                                     "a seeded share of every replica's answers is recomputed on single-use instances"]},
        "simulated_time": "not applicable: no clock on this surface",
        "unconfirmed_search_hits": len(rep.unconfirmed),
        "known_findings_seen": len(rep.known),
    })
    ev.violations = len(rep.violations)
    ev.assumptions = [
        "replica oracle: history-independent wrong answers are invisible (C01/C03/C09 territory)",
        "the identity-disjointness invariant reads the private attribute _parsed_decays named in the property's anchors; if it is absent or "
        "not a list of lark Trees the invariant is counted as unavailable, not failed",
        "interrupts are not injected into the lazy grammar loaders (grammar(), grammar_info()); an interrupted parse is followed by a complete parse",
        "mutating the dictionary returned by grammar_info() is excluded: it is the documented handle for parser options",
    ]
    ev.write()
    log(f"[C08] sessions={sessions} ops={ops_total} distinct_nontrivial={len(nthashes)} violations={len(rep.violations)} known={len(rep.known)}")
    return rep.exit_code()
