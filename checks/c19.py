"""C19 — C++ and Python GooFit outputs describe the same, self-contained model."""

from __future__ import annotations

import hashlib
import os
import random
import subprocess

from checks.common import Reporter, confirm_minimise_report, default_workers, run_regressions
from simkit.core import mark_cover, reach_report, Evidence, log, merge_counts, run_seed
from simkit.pool import ZygotePool, unwrap
from worlds import ampworld

ENGINE = "worlds.ampworld"
FUNC = "run_c19"
PROP = "C19"

TIERS = {
    "quick": {"files": 12, "shipped": 0, "subprocess": 0},
    "thorough": {"files": 160, "shipped": 1, "subprocess": 6},
}


def known_keys(case, out):
    return {}


def plan(seed: int, tier: str, n_files: int):
    pool = ampworld.make_pool(run_seed(seed, PROP, tier, 0, "pool"), n_files, {"max_top": 2, "max_alt": 2})
    jobs = []
    i = 0
    k = 0
    while i < len(pool):
        rng = random.Random(run_seed(seed, PROP, tier, k, "order"))
        k += 1
        # a third of the sessions convert two files, their replicas interleaved: a replica of one file then has
        # conversions of another file between it and its siblings
        two = rng.random() < 0.34 and i + 1 < len(pool)
        fl = pool[i : i + (2 if two else 1)]
        i += len(fl)
        if two and rng.random() < 0.5:
            # the second file is the first one with the final state of its EventType line in another order
            fl = [fl[0], ampworld.permuted_twin(fl[0], rng)]
        elif rng.random() < 0.2:
            fl = [ampworld.permuted_twin(f, rng) for f in fl]
        if two:
            order = [[fi, ri] for fi in range(2) for ri in rng.sample(range(6), 4)]
        else:
            order = [[0, ri] for ri in range(6)]
        rng.shuffle(order)
        r = rng.random()
        n_reads = len(order)
        if r < 0.6:
            clock = []                      # the clock stands still: even the timestamp lines must agree
        elif r < 0.8:
            clock = [rng.choice([0, 1.5, 3600.0]) for _ in range(n_reads)]   # jumps forward between replicas
        else:
            clock = [rng.choice([0, -86400.0, 0.25, -1.0]) for _ in range(n_reads)]  # and backward
        tags = {t for f in fl for t in f["tags"]} | ({"two_files_interleaved"} if two else set())
        args = {"files": [{"name": f["name"], "text": f["text"]} for f in fl], "order": order, "clock": clock}
        r2 = rng.random()
        special = bool(tags & {"kMatrix", "FOCUS"})  # files naming pseudo-particles of the special table
        if r2 < 0.25:
            args["wfilter"] = "error"          # the simulated process turns warnings into errors
            tags.add("warnings_as_errors")
        elif r2 < (0.75 if special else 0.4):
            # transient I/O error while the special-particle table loads: half of the time at the very first conversion of the process
            args["table_fault_before"] = 0 if rng.random() < 0.7 else rng.randrange(0, max(1, len(order) - 2))
            tags.add("table_load_fault")
        # in half of the sessions another thread of the caller gets one turn (and prints a line) at a seeded line boundary
        # inside each string-returning conversion; a conversion runs 10-25 thousand line events inside the package
        if rng.random() < 0.5:
            args["bystander"] = {str(pos): int(10 ** rng.uniform(0.3, 4.2)) for pos, (_, ri) in enumerate(order) if ampworld.REPLICAS[ri][1] == "ret"}
            tags.add("bystander_thread_prints")
        jobs.append({"engine": ENGINE, "func": FUNC, "limit_s": 1500, "args": args, "tags": sorted(tags)})
    return jobs


def main(tier: str, seed: int, opts) -> int:
    cfg = dict(TIERS[tier])
    for k in list(cfg):
        if k in opts:
            cfg[k] = int(opts[k])
    ev = Evidence(PROP, tier, seed)
    rep = Reporter(PROP)
    jobs = plan(seed, tier, cfg["files"])
    if cfg["shipped"]:
        with open(ampworld.SHIPPED_MODEL, encoding="utf-8") as f:
            jobs.append({"engine": ENGINE, "func": FUNC, "limit_s": 3000, "tags": ["shipped_model"],
                         "args": {"files": [{"name": "DtoKpipipi_v2.txt", "text": f.read()}], "order": [[0, 1], [0, 4], [0, 0], [0, 3]], "clock": []}})
    log(f"[C19] VERIF_SEED={seed} tier={tier} files={len(jobs)}")
    tags_seen: dict = {}
    for j in jobs:
        for t in j.pop("tags"):
            tags_seen[t] = tags_seen.get(t, 0) + 1
    with ZygotePool(workers=default_workers(), preload="worlds.ampworld,worlds.ampcheck") as pool:
        n_reg = run_regressions(rep, pool, PROP)
        mark_cover(jobs)
        results = [unwrap(r, "C19 file") for r in pool.map(jobs, progress="C19")]
        stats: dict = {}
        abstract, nontrivial = set(), set()
        files_total = 0
        ls_kinds, sf_kinds = set(), set()
        digest = hashlib.sha256()
        digest_n = hashlib.sha256()
        seen = set()
        for i, (job, r) in enumerate(zip(jobs, results)):
            digest.update(r["log_digest"].encode())
            digest_n.update(r["log_digest_normalised"].encode())
            merge_counts(stats, r["stats"])
            ab = hashlib.sha256(repr(r["abstract"]).encode()).hexdigest()[:12] + r["file"]
            abstract.add(ab)
            if len(r["abstract"]) > 2:
                nontrivial.add(ab)
            files_total += r["stats"].get("files_in_session", 1)
            ls_kinds.update(r.get("lineshape_kinds", []))
            sf_kinds.update(r.get("spin_kinds", []))
            if r["verdict"] == "violation":
                key = tuple(sorted(r["signature"].items()))
                if key in seen or len(seen) >= 4:
                    continue
                seen.add(key)
                confirm_minimise_report(rep, pool, ENGINE, job["args"], r, f"{seed}-{i}", candidates=ampworld.c19_candidates, func=FUNC,
                                        known_keys=known_keys, meta={"verif_seed": seed, "run_index": i, "tier": tier, "limit_s": 900},
                                        budget_evals=120, budget_s=420, limit_s=900)
        # real command-line processes (thorough): stdout of `python -m decaylanguage -G ...` equals the in-process text
        sub_checked = 0
        if cfg["subprocess"]:
            import tempfile

            src = os.environ.get("VERIF_SRC_ROOT", "/repo/src")
            for job in jobs[: cfg["subprocess"]]:
                with tempfile.TemporaryDirectory(dir="/var/tmp") as d:
                    f0 = job["args"]["files"][0]
                    path = os.path.join(d, f0["name"])
                    with open(path, "w", encoding="utf-8") as f:
                        f.write(f0["text"])
                    for lang, gen in (("cpp", "goofit"), ("py", "goofitpy")):
                        env = dict(os.environ, PYTHONPATH=src, PYTHONHASHSEED="0", NO_COLOR="1")
                        p = subprocess.run(["/venv/bin/python", "-m", "decaylanguage", "-G", gen, path], capture_output=True, text=True, env=env, timeout=900)
                        ref = unwrap(pool.call({"engine": ENGINE, "func": "run_ops", "limit_s": 900, "hashseed": 0,
                                                "args": {"pool": [{"name": os.path.basename(path), "text": f0["text"]}],
                                                         "ops": [{"op": "convert", "lang": lang, "file": os.path.basename(path), "ret": True}]}}))
                        a = ampworld.strip_timestamp(p.stdout).replace(path, "")
                        b = ampworld.strip_timestamp(ampworld.op_text(ref["obs"][0]) or "")
                        sub_checked += 1
                        if p.returncode != 0 or a != b:
                            rep.violations.append({"signature": {"check": "command_line_equals_function"}, "replay": "n/a"})
                            from simkit.core import write_replay

                            rp = write_replay(PROP, f"{seed}-subprocess-{lang}", {"engine": ENGINE, "func": FUNC, "case": job["args"],
                                              "violation": {"signature": {"check": "command_line_equals_function"}, "detail": {"exit": p.returncode, "stderr": p.stderr[-500:]}}})
                            print(f"VIOLATION property={PROP} replay={rp}", flush=True)
        samples = [{"files": [f["text"][:1200] for f in jobs[0]["args"]["files"]],
                    "order": [[fi, *ampworld.REPLICAS[i]] for fi, i in jobs[0]["args"]["order"]], "clock_deltas": jobs[0]["args"]["clock"]}]
    cover_hits = set(pool.cover_hits)
    ev.cov.update({
        "evaluations": stats.get("conversions", 0),
        "distinct_nontrivial": len(nontrivial),
        "rule": "one evaluation = one conversion call (entry point x language replica) of an option file inside a session: six replicas of "
                "one file, or four replicas each of two files interleaved, run in seeded order under a simulated clock and stdout; distinct = "
                "distinct (files, replica order, clock jumps); non-trivial = the session has at least two replicas (so an agreement is actually checked)",
        "samples": samples,
        "sessions": len(jobs),
        "files": files_total,
        "file_feature_tags": tags_seen,
        "counters": stats,
        "lineshape_kinds_compared": sorted(ls_kinds),
        "spin_factor_kinds_compared": sorted(sf_kinds),
        "fault_kinds_fired": {"clock_jump_between_replicas": stats.get("clock_jumps", 0), "stdout_sink_replaced_between_calls": stats.get("conversions", 0),
                              "special_table_load_met_io_error": stats.get("replicas_hit_by_table_load_fault", 0),
                              "sessions_with_warnings_as_errors": tags_seen.get("warnings_as_errors", 0),
                              "another_thread_printed_during_a_returning_conversion": stats.get("bystander_prints_fired", 0),
                              "bystander_turn_after_the_call_ended": stats.get("bystander_turn_after_the_call_ended", 0)},
        "simulated_time": {"clock_reads": stats.get("clock_reads", 0), "clock_jumps": stats.get("clock_jumps", 0)},
        "real_subprocess_conversions_compared": sub_checked,
        "regression_replays_run": n_reg,
        "anchored_code_reach": reach_report(PROP, cover_hits),
        "log_digest": digest.hexdigest(),
        "log_digest_normalised": digest_n.hexdigest(),
        "components": {"real": ["decaylanguage.modeling (reader, both generators)", "decaylanguage.__main__ via plumbum in-process", "lark", "particle", "pandas"],
                       "simulated": ["wall clock of the converters", "stdout", "option files (in memory)", "goofit module (recording stand-in that executes the generated Python)"],
                       "reference": ["replicas of the same conversion", "record read from the executed Python vs record parsed from the C++ text"]},
        "unconfirmed_search_hits": len(rep.unconfirmed),
        "known_findings_seen": len(rep.known),
    })
    ev.violations = len(rep.violations)
    ev.assumptions = [
        "the recording goofit module exports the names the generator targets (Variable with 2-5 arguments, the four lineshape kinds, 16 spin factors, 18 mass-index constants)",
        "a symbol that a lineshape needs but the input file never defines is the property's precondition failing; such symbols are injected and excluded from the closure clause",
        "the C++ text is read by patterns of the generator's own templates; column padding and declaration order are ignored",
        "the second caller thread is simulated as one action (a print to the process's stdout) run at a seeded line boundary of a string-returning conversion; it never touches the library, whose process-wide state rules out concurrent conversions",
    ]
    ev.write()
    log(f"[C19] sessions={len(jobs)} files={files_total} conversions={stats.get('conversions')} violations={len(rep.violations)} known={len(rep.known)}")
    return rep.exit_code()
