"""Shared driver pieces: violation confirmation, parallel shrinking, replay
files, known-finding handling and the final verdict."""

from __future__ import annotations

import json
import os
import time

from simkit.core import log, match_known, read_replay, write_replay
from simkit.pool import HarnessError, ZygotePool, unwrap

EXIT_OK, EXIT_VIOLATION, EXIT_HARNESS = 0, 1, 2


def default_workers() -> int:
    try:
        return int(os.environ.get("VERIF_WORKERS", "0")) or min(16, os.cpu_count() or 4)
    except ValueError:
        return 16


class Reporter:
    """Collects confirmed violations, prints VIOLATION / KNOWN-FINDING lines."""

    def __init__(self, prop: str):
        self.prop = prop
        self.violations: list = []
        self.known: list = []
        self.unconfirmed: list = []

    def exit_code(self) -> int:
        return EXIT_VIOLATION if self.violations else EXIT_OK


def run_case(pool: ZygotePool, engine: str, case: dict, func: str = "run_case", hashseed=None, limit_s: float = 120):
    job = {"engine": engine, "func": func, "args": case, "limit_s": limit_s}
    if hashseed is not None:
        job["hashseed"] = hashseed
    return pool.call(job)


def still_fails(res: dict, signature: dict) -> bool:
    if not res.get("ok"):
        return False
    out = res["out"]
    return out.get("verdict") == "violation" and out.get("signature") == signature


def parallel_shrink(pool, engine, case, signature, candidates, func="run_case", hashseed=None,
                    budget_evals=600, budget_s=120.0, width=16, limit_s=120):
    """Greedy shrink, `width` candidates evaluated at once; the lowest-index
    passing candidate wins, so the result does not depend on timing."""
    from itertools import islice

    t0 = time.monotonic()
    evals = 0
    cur = case
    while True:
        gen = candidates(cur)
        found = None
        while found is None:
            batch = list(islice(gen, width))
            if not batch:
                break
            if evals >= budget_evals or time.monotonic() - t0 > budget_s:
                return cur, evals
            jobs = []
            for c in batch:
                j = {"engine": engine, "func": func, "args": c, "limit_s": limit_s}
                if hashseed is not None:
                    j["hashseed"] = hashseed
                jobs.append(j)
            results = pool.map(jobs)
            evals += len(jobs)
            for c, r in zip(batch, results):
                if still_fails(r, signature):
                    found = c
                    break
        if found is None:
            return cur, evals
        cur = found


def confirm_minimise_report(rep: Reporter, pool, engine, case, first_result, name, candidates=None,
                            func="run_case", hashseed=None, meta=None, known_keys=None,
                            budget_evals=600, budget_s=120.0, limit_s=120):
    """case: explicit replayable case.  first_result: the violating result seen
    during the search.  Confirms in a fresh child, shrinks, writes the replay
    file, replays it once more, and prints the line."""
    signature = first_result["signature"]
    res = run_case(pool, engine, case, func, hashseed, limit_s)
    if not still_fails(res, signature):
        rep.unconfirmed.append({"name": name, "signature": signature, "replay_result": res})
        log(f"[{rep.prop}] violation {signature} from the search did NOT reproduce in a fresh child: {json.dumps(res)[:400]}")
        return None
    original_size = len(json.dumps(case))
    evals = 0
    if candidates is not None:
        case, evals = parallel_shrink(pool, engine, case, signature, candidates, func, hashseed,
                                      budget_evals, budget_s, limit_s=limit_s)
    final = run_case(pool, engine, case, func, hashseed, limit_s)
    if not still_fails(final, signature):  # cannot happen unless nondeterministic
        raise HarnessError(f"minimised case stopped failing on re-run: {signature}")
    body = {
        "engine": engine,
        "func": func,
        "python_hashseed": hashseed if hashseed is not None else pool.hashseeds[0],
        "src_root": pool.src_root,
        "case": case,
        "violation": {"signature": signature, "detail": final["out"].get("detail"), "step": final["out"].get("step")},
        "minimised": candidates is not None,
        "shrink_evaluations": evals,
        "original_size_bytes": original_size,
        "minimised_size_bytes": len(json.dumps(case)),
    }
    if meta:
        body.update(meta)
    sig_for_known = dict(signature)
    if known_keys:
        sig_for_known.update(known_keys(case, final["out"]))
    kf = match_known(rep.prop, sig_for_known)
    path = write_replay(rep.prop, name, body)
    if kf is not None:
        rep.known.append({"finding": kf, "replay": path})
        print(f"KNOWN-FINDING: property={rep.prop} {kf.get('what', '')} (replay {path})", flush=True)
        return path
    rep.violations.append({"signature": signature, "replay": path})
    print(f"VIOLATION property={rep.prop} replay={path}", flush=True)
    log(f"[{rep.prop}] {signature}: {json.dumps(final['out'].get('detail'))[:600]}")
    return path


def replay_file(prop: str, path: str, workers: int = 1) -> int:
    body = read_replay(path)
    src = os.environ.get("VERIF_SRC_ROOT", "/repo/src")
    hs = body.get("python_hashseed", 0)
    with ZygotePool(workers=1, hashseeds=[hs], src_root=src) as pool:
        res = run_case(pool, body["engine"], body["case"], body.get("func", "run_case"), hs,
                       limit_s=body.get("limit_s", 300))
    sig = body["violation"]["signature"]
    if still_fails(res, sig):
        print(f"VIOLATION property={prop} replay={path}", flush=True)
        log(json.dumps(res["out"].get("detail"))[:1000])
        return EXIT_VIOLATION
    if not res.get("ok"):
        log(f"harness problem during replay: {res}")
        return EXIT_HARNESS
    print(f"not reproduced: {path} (result: {json.dumps(res['out'])[:300]})", flush=True)
    return EXIT_OK


def run_regressions(rep: Reporter, pool, prop: str) -> int:
    """Replays of findings that were repaired: a fixed entry suppresses nothing,
    so each stored trigger is executed again and reported if it fails again."""
    import glob

    from simkit.core import VERIF_DIR

    n = 0
    for path in sorted(glob.glob(os.path.join(VERIF_DIR, "regressions", f"{prop}-*.json"))):
        body = read_replay(path)
        hs = body.get("python_hashseed")
        if hs not in pool.hashseeds:
            hs = pool.hashseeds[0]
        res = run_case(pool, body["engine"], body["case"], body.get("func", "run_case"), hs,
                       limit_s=body.get("limit_s", 300))
        n += 1
        if not res.get("ok"):
            raise HarnessError(f"regression {path}: {res}")
        if still_fails(res, body["violation"]["signature"]):
            rep.violations.append({"signature": body["violation"]["signature"], "replay": path})
            print(f"VIOLATION property={prop} replay={path}", flush=True)
            log(f"[{prop}] repaired finding {body.get('finding')} is back: {json.dumps(res['out'].get('detail'))[:500]}")
    return n
