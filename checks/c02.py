"""C02 — layout, comments, line ends and file packaging never change what is parsed."""

from __future__ import annotations

import glob
import hashlib
import os

from checks.common import Reporter, confirm_minimise_report, default_workers, run_regressions
from simkit.core import mark_cover, reach_report, Evidence, log, merge_counts, run_seed
from simkit.pool import ZygotePool, unwrap
from worlds import decworld

ENGINE = "worlds.decworld"
FUNC = "run_c02"
PROP = "C02"

TIERS = {
    "quick": {"gen_runs": 640, "gen_deliveries": 8, "fault_runs": 96, "file_deliveries": 20, "file_chunk": 5, "master_deliveries": 0},
    "thorough": {"gen_runs": 12000, "gen_deliveries": 10, "fault_runs": 1500, "file_deliveries": 120, "file_chunk": 6, "master_deliveries": 40},
}


def data_files():
    return sorted(glob.glob("/repo/tests/data/*.dec"))


def master_files():
    src = os.environ.get("VERIF_SRC_ROOT", "/repo/src")
    return sorted(glob.glob(os.path.join(src, "decaylanguage", "data", "*.DEC")))


def known_keys(case, out):
    """Structural facts of the minimised case used to match known findings."""
    knobs = case["deliveries"][0]["knobs"] if case.get("deliveries") else {}
    return {"bom": bool(knobs.get("bom")), "mode": knobs.get("mode", "files")}


def main(tier: str, seed: int, opts) -> int:
    cfg = dict(TIERS[tier])
    for k in list(cfg):
        if k in opts:
            cfg[k] = int(opts[k])
    ev = Evidence(PROP, tier, seed)
    rep = Reporter(PROP)
    jobs, labels = [], []
    for i in range(cfg["gen_runs"]):
        jobs.append({"engine": ENGINE, "func": FUNC, "limit_s": 180,
                     "args": {"seed": run_seed(seed, PROP, tier, i, "gen"), "n_deliveries": cfg["gen_deliveries"]}})
        labels.append(("gen", i))
    for i in range(cfg["fault_runs"]):
        jobs.append({"engine": ENGINE, "func": FUNC, "limit_s": 180,
                     "args": {"seed": run_seed(seed, PROP, tier, i, "fault"), "n_deliveries": 6, "faults": True}})
        labels.append(("fault", i))
    fi = 0
    for path in data_files():
        for c in range(0, cfg["file_deliveries"], cfg["file_chunk"]):
            jobs.append({"engine": ENGINE, "func": FUNC, "limit_s": 300,
                         "args": {"seed": run_seed(seed, PROP, tier, fi, "file"), "file": path,
                                  "n_deliveries": min(cfg["file_chunk"], cfg["file_deliveries"] - c)}})
            labels.append(("file:" + os.path.basename(path), fi))
            fi += 1
    for path in master_files():
        for c in range(cfg["master_deliveries"]):
            jobs.append({"engine": ENGINE, "func": FUNC, "limit_s": 900,
                         "args": {"seed": run_seed(seed, PROP, tier, fi, "master"), "file": path, "n_deliveries": 1}})
            labels.append(("master:" + os.path.basename(path), fi))
            fi += 1
    log(f"[C02] VERIF_SEED={seed} tier={tier} jobs={len(jobs)}")
    # a quarter of the simulated processes have a locale encoding that is not UTF-8; jobs are pinned to a configuration by
    # their index, so which process configuration a run meets is part of the seeded plan
    z = os.environ.get("VERIF_ZYGOTE_HASHSEED", "0")
    configs = [z, z, z, f"{z}@clocale"]
    for i, j in enumerate(jobs):
        j["hashseed"] = configs[i % 4]
    with ZygotePool(workers=default_workers(), hashseeds=configs, preload="worlds.decworld") as pool:
        n_reg = run_regressions(rep, pool, PROP)
        mark_cover(jobs)
        results = [unwrap(r, "C02 run") for r in pool.map(jobs, progress="C02")]
        fs: dict = {}
        faults: dict = {}
        abstract, sim_abstract = set(), set()
        deliveries = discards = 0
        by_source: dict = {}
        discard_reasons: dict = {}
        samples = []
        seen = set()
        digest = hashlib.sha256()
        for (label, idx), job, r in zip(labels, jobs, results):
            digest.update((r.get("log_digest") or "-").encode())
            if r["verdict"] == "discard":
                discards += 1
                key = label.split(":")[0] + ": " + r.get("reason", "")[:90]
                discard_reasons[key] = discard_reasons.get(key, 0) + 1
                continue
            deliveries += r["deliveries"]
            src = label.split(":")[0]
            by_source[src] = by_source.get(src, 0) + r["deliveries"]
            merge_counts(fs, r["fs"])
            merge_counts(faults, r["faults"])
            abstract.update(r["abstract"])
            sim_abstract.update(r["sim_abstract"])
            if r["verdict"] == "violation":
                sig = r["signature"]
                key = (sig["check"], sig.get("exc"), sig.get("faulted"), "@" in str(job.get("hashseed")))
                if key in seen or len(seen) >= 4:
                    continue
                seen.add(key)
                path = confirm_minimise_report(rep, pool, ENGINE, r["case"], r, f"{seed}-{label.replace(':', '_')}-{idx}",
                                               candidates=decworld.candidates, func=FUNC, known_keys=known_keys, hashseed=job.get("hashseed"),
                                               meta={"verif_seed": seed, "stream": label, "run_index": idx, "tier": tier},
                                               budget_evals=800, budget_s=240, limit_s=300)
                if path:
                    # human-readable rendering of the minimised deliveries
                    from simkit.core import read_replay, write_replay

                    body = read_replay(path)
                    try:
                        body["rendered"] = unwrap(pool.call({"engine": ENGINE, "func": "describe", "args": body["case"]}))
                        write_replay(PROP, os.path.basename(path)[len(PROP) + 1 : -5], body)
                    except Exception as e:  # rendering is a convenience only
                        log(f"[C02] could not render replay: {e}")
        # three written-out samples: seeds only are not readable, so regenerate small ones
        for i in range(3):
            s = run_seed(seed, PROP, tier, i, "gen")
            samples.append({"seed": s, "note": "run_c02({'seed': seed, 'n_deliveries': n}) regenerates document and deliveries"})
        sample_out = unwrap(pool.call({"engine": ENGINE, "func": FUNC, "args": {"seed": run_seed(seed, PROP, tier, 0, "gen"), "n_deliveries": 2, "return_case": True}}))
        if sample_out.get("case"):
            rendered = unwrap(pool.call({"engine": ENGINE, "func": "describe", "args": sample_out["case"]}))
            samples.insert(0, {"canonical_text": rendered["canonical_text"][:1500],
                               "plans": sample_out["case"]["deliveries"],
                               "first_delivery": rendered["deliveries"][0]})
    cover_hits = set(pool.cover_hits)
    ev.cov.update({
        "evaluations": deliveries,
        "distinct_nontrivial": len(sim_abstract),
        "rule": "one evaluation = one delivery of a logical document (parsed by the real code through the simulated file system or "
                "from_string) whose full query snapshot is compared with the snapshot of the canonical text; distinct = distinct "
                "vectors of delivery knobs; non-trivial = at least one simulated dimension differs from 'one LF file given as str, "
                "read in one piece' (file count, End lines, BOM, CRLF, missing final newline, empty files, raw read chunking, path "
                "flavour, string constructor, read fault)",
        "samples": samples,
        "runs": len(jobs),
        "runs_discarded_unparseable_canonical": discards,
        "discard_reasons": discard_reasons,
        "deliveries_by_source": by_source,
        "distinct_knob_vectors": len(abstract),
        "simulated_fs_counters": fs,
        "fault_kinds_fired": {**faults, "short_reads": fs.get("short_reads", 0)},
        "regression_replays_run": n_reg,
        "anchored_code_reach": reach_report(PROP, cover_hits),
        "process_configurations": {"utf8_locale_runs": sum(1 for j in jobs if "@" not in str(j.get("hashseed"))),
                                   "non_utf8_locale_runs": sum(1 for j in jobs if "@clocale" in str(j.get("hashseed")))},
        "log_digest": digest.hexdigest(),
        "components": {"real": ["decaylanguage.dec.dec (constructor, from_string, parse, all queries)", "decfile.lark", "lark", "particle",
                                "CPython io.TextIOWrapper/BufferedReader (decoding, BOM codec, universal newlines)"],
                       "simulated": ["file table and raw byte layer under /simfs (short reads, EIO at offset, file vanishing after is_file())",
                                     "caller's choice of constructor and path flavour"],
                       "reference": ["replica: the same code on the canonical text through from_string"]},
        "simulated_time": "not applicable: no clock on this surface",
        "unconfirmed_search_hits": len(rep.unconfirmed),
        "known_findings_seen": len(rep.known),
    })
    ev.violations = len(rep.violations)
    ev.assumptions = [
        "replica oracle: a bug that gives the same wrong answer for every layout is invisible here (that is C01's business)",
        "well-formedness presupposed by the property: every statement ends with a newline, no label starts with 'End', wrapped parameter lists have at least one item",
        "under an injected read fault the constructor may raise; it may never return an object that answers differently",
    ]
    ev.write()
    log(f"[C02] deliveries={deliveries} distinct_nontrivial={len(sim_abstract)} discards={discards} violations={len(rep.violations)} known={len(rep.known)}")
    return rep.exit_code()
