"""C15 — the chain graph has one node and one labelled edge per decay line."""

from __future__ import annotations

import hashlib
import os

from checks.common import Reporter, confirm_minimise_report, default_workers, run_regressions
from simkit.core import mark_cover, reach_report, Evidence, log, merge_counts, run_seed
from simkit.pool import ZygotePool, unwrap
from worlds import viewworld

ENGINE = "worlds.viewworld"
FUNC = "run_c15"
PROP = "C15"

TIERS = {
    "quick": {"sessions": 2400, "p_dot_permille": 12},
    "thorough": {"sessions": 120000, "p_dot_permille": 12},
}


def known_keys(case, out):
    return {}


def main(tier: str, seed: int, opts) -> int:
    cfg = dict(TIERS[tier])
    for k in list(cfg):
        if k in opts:
            cfg[k] = int(opts[k])
    ev = Evidence(PROP, tier, seed)
    rep = Reporter(PROP)
    jobs = [{"engine": ENGINE, "func": FUNC, "limit_s": 300,
             "args": {"seed": run_seed(seed, PROP, tier, i), "cfg": {"p_dot": cfg["p_dot_permille"] / 1000.0}}} for i in range(cfg["sessions"])]
    log(f"[C15] VERIF_SEED={seed} tier={tier} sessions={len(jobs)}")
    # an eighth of the simulated processes run with assert statements compiled away (python -O)
    z = os.environ.get("VERIF_ZYGOTE_HASHSEED", "0")
    configs = [z] * 7 + [f"{z}@optimize"]
    for i, j in enumerate(jobs):
        j["hashseed"] = configs[i % 8]
    with ZygotePool(workers=default_workers(), hashseeds=configs, preload="worlds.viewworld") as pool:
        n_reg = run_regressions(rep, pool, PROP)
        mark_cover(jobs)
        results = [unwrap(r, "C15 session") for r in pool.map(jobs, progress="C15")]
        stats: dict = {}
        hashes, nthashes, shapes = set(), set(), set()
        digest = hashlib.sha256()
        seen = set()
        max_depth = 0
        multi = failed = 0
        for i, r in enumerate(results):
            digest.update(r["log_digest"].encode())
            st = dict(r["stats"])
            max_depth = max(max_depth, st.pop("max_depth", 0))
            merge_counts(stats, st)
            hashes.add(r["abstract_hash"])
            shapes.update(r["graph_shapes"])
            if r["nontrivial"]:
                nthashes.add(r["abstract_hash"])
            if r["stats"]["builds"] >= 2:
                multi += 1
            if r["stats"]["failed_builds"] >= 1:
                failed += 1
            if r["verdict"] == "violation":
                key = r["signature"]["check"]
                if key in seen or len(seen) >= 4:
                    continue
                seen.add(key)
                confirm_minimise_report(rep, pool, ENGINE, r["case"], r, f"{seed}-{i}", candidates=viewworld.candidates, func=FUNC, hashseed=jobs[i]["hashseed"],
                                        known_keys=known_keys, meta={"verif_seed": seed, "run_index": i, "tier": tier},
                                        budget_evals=600, budget_s=180, limit_s=300)
        s0 = unwrap(pool.call({"engine": ENGINE, "func": FUNC, "args": {"seed": run_seed(seed, PROP, tier, 0), "return_case": True, "cfg": {"max_builds": 4}}}))
        samples = []
        if s0.get("case"):
            from worlds.decgen import canonical_text

            samples.append({"documents": [canonical_text(d)[:1500] for d in s0["case"]["docs"]], "ops": s0["case"]["ops"]})
    cover_hits = set(pool.cover_hits)
    ev.cov.update({
        "evaluations": len(results),
        "distinct_nontrivial": len(nthashes),
        "rule": "one evaluation = one session of 2-12 viewer constructions in one process (chains built by the real parser from generated "
                "documents or by DecayChain.to_dict), with failed constructions, bystander calls and runs of the real `dot` in between; each "
                "graph is compared with the reference tree and all non-root ids must be new in the session; distinct = distinct sequences of "
                "(operation, source, depth, node count); non-trivial = at least two graphs or at least one failed construction in the session",
        "samples": samples,
        "sessions_with_two_or_more_graphs": multi,
        "sessions_with_a_failed_build": failed,
        "distinct_graph_shapes": len(shapes),
        "max_chain_depth": max_depth,
        "counters": stats,
        "fault_kinds_fired": {"construction_failed_part_way_after_ids_were_consumed": stats.get("failed_builds", 0),
                              "of_which_killed_by_injected_exception": stats.get("interrupted_builds", 0),
                              "graph_built_from_a_worker_thread": stats.get("builds_in_worker_thread", 0),
                              "graph_built_by_a_user_subclass_of_the_viewer": stats.get("builds_by_a_user_subclass", 0),
                              "first_to_string_killed_then_repeated": stats.get("to_string_interrupted", 0),
                              "sessions_in_a_python_O_process": sum(1 for j in jobs if "@optimize" in str(j.get("hashseed")))},
        "distinct_abstract_histories": len(hashes),
        "regression_replays_run": n_reg,
        "anchored_code_reach": reach_report(PROP, cover_hits),
        "log_digest": digest.hexdigest(),
        "components": {"real": ["decaylanguage.decay.viewer.DecayChainViewer", "graphviz (Python)", "dot (binary, subprocess)", "DecFileParser.build_decay_chains", "DecayChain.to_dict"],
                       "simulated": ["the session (order and mix of constructions, failures, bystanders)"],
                       "reference": ["sequential model of the graph as a labelled rooted tree", "tolerant DOT reader", "particle's EvtGen->LaTeX->HTML name maps (trusted)"]},
        "simulated_time": "not applicable",
        "unconfirmed_search_hits": len(rep.unconfirmed),
        "known_findings_seen": len(rep.known),
    })
    ev.violations = len(rep.violations)
    ev.assumptions = [
        "the root keeps the fixed id 'mother' in every graph: cross-graph uniqueness is required of decay-line nodes only",
        "edge labels are compared as numbers (float(label) == bf); empty port-less cells are treated as padding",
        "the first sentence of the property is a pure function of the chain; it is decided here because the model must predict the whole graph to say which ids may appear",
    ]
    ev.write()
    log(f"[C15] sessions={len(results)} builds={stats.get('builds')} dot={stats.get('dot_runs')} distinct_nontrivial={len(nthashes)} violations={len(rep.violations)} known={len(rep.known)}")
    return rep.exit_code()
