"""C20 — conversion output depends only on the input file."""

from __future__ import annotations

import hashlib
import json
import os
import random
import subprocess

from checks.common import EXIT_HARNESS, EXIT_OK, EXIT_VIOLATION, Reporter, confirm_minimise_report, default_workers, run_regressions, still_fails
from simkit.core import mark_cover, reach_report, Evidence, log, read_replay, run_seed, write_replay
from simkit.pool import ZygotePool, unwrap
from worlds import ampworld

ENGINE = "worlds.ampworld"
PROP = "C20"

TIERS = {
    "quick": {"files": 4, "hashseeds": 2, "extra_hashseeds": 4, "histories": 32, "twice_percent": 20, "fresh_interpreters": 0},
    "thorough": {"files": 12, "hashseeds": 6, "extra_hashseeds": 10, "histories": 1200, "twice_percent": 15, "fresh_interpreters": 12},
}
HASHSEEDS = [0, 1, 7, 42, 1234, 99991]
EXTRA_HASHSEEDS = [2, 3, 5, 11, 101, 2024, 31337, 65537, 424242, 4294967295]


def known_keys(case, out):
    return {}


def replay(path: str) -> int:
    body = read_replay(path)
    if body.get("kind") == "hashseed_pair":
        hs = body["hashseeds"]
        with ZygotePool(workers=2, hashseeds=hs) as pool:
            obs = [unwrap(pool.call({"engine": ENGINE, "func": "run_ops", "hashseed": h, "limit_s": 900, "args": body["case"]}))["obs"][0] for h in hs]
        d = ampworld.compare_obs(obs[0], obs[1])
        if d is not None:
            print(f"VIOLATION property={PROP} replay={path}", flush=True)
            log(json.dumps(d)[:800])
            return EXIT_VIOLATION
        print(f"not reproduced: {path}")
        return EXIT_OK
    from checks.common import replay_file

    return replay_file(PROP, path)


def main(tier: str, seed: int, opts) -> int:
    cfg = dict(TIERS[tier])
    for k in list(cfg):
        if k in opts:
            cfg[k] = int(opts[k])
    ev = Evidence(PROP, tier, seed)
    rep = Reporter(PROP)
    hashseeds = HASHSEEDS[: cfg["hashseeds"]]
    pool_files = ampworld.make_pool(run_seed(seed, PROP, tier, 0, "pool"), cfg["files"], {"max_top": 2, "max_alt": 2, "with_cartesian": True, "collisions": True, "with_unconvertible": True})
    # ... and the twin of its richest convertible file: the same decay lines under a differently ordered EventType line
    plain = [f for f in pool_files if not ({"cartesian_option", "unimplemented_lineshape"} & set(f.get("tags") or []))]
    if plain:
        src = max(plain, key=lambda f: len(f.get("resonances", [])))
        twin = ampworld.permuted_twin(src, random.Random(run_seed(seed, PROP, tier, 0, "twin")))
        if twin["text"] != src["text"]:
            pool_files.append({**twin, "twin_of": src["name"]})
    if tier == "thorough":
        with open(ampworld.SHIPPED_MODEL, encoding="utf-8") as f:
            pool_files.append({"name": "DtoKpipipi_v2.txt", "text": f.read(), "tags": ["shipped_model"], "resonances": ["x"] * 30})
    slim = [{"name": f["name"], "text": f["text"]} for f in pool_files]
    histories = []
    for i in range(cfg["histories"]):
        rng = random.Random(run_seed(seed, PROP, tier, i, "history"))
        h = ampworld.gen_history(rng, pool_files)
        h["hashseed"] = hashseeds[i % len(hashseeds)]
        h["twice"] = rng.randrange(100) < cfg["twice_percent"]
        histories.append(h)
    # pristine references: one single-op process per distinct (call, file, hash seed)
    need = {}
    for h in histories:
        for op in h["ops"]:
            if op["op"] not in ampworld.FAULT_OPS:
                need.setdefault((ampworld.op_key(op), h["hashseed"]), op)
    # every distinct call is also evaluated under every hash seed (oracle 2)
    for (k, _), op in list(need.items()):
        for hs in hashseeds:
            need.setdefault((k, hs), op)
    ref_keys = sorted(need)
    ref_jobs = [{"engine": ENGINE, "func": "run_ops", "hashseed": hs, "limit_s": 2400, "args": {"pool": slim, "ops": [need[(k, hs)]]}} for k, hs in ref_keys]
    hist_jobs, hist_index = [], []
    for i, h in enumerate(histories):
        for rep_i in range(2 if h["twice"] else 1):
            hist_jobs.append({"engine": ENGINE, "func": "run_ops", "hashseed": h["hashseed"], "limit_s": 3000,
                              "args": {"pool": slim, "ops": h["ops"], "clock": h["clock"]}})
            hist_index.append((i, rep_i))
    log(f"[C20] VERIF_SEED={seed} tier={tier} files={len(slim)} hashseeds={hashseeds} pristine_calls={len(ref_jobs)} history_runs={len(hist_jobs)}")
    with ZygotePool(workers=default_workers(), hashseeds=hashseeds, preload="worlds.ampworld") as pool:
        n_reg = run_regressions(rep, pool, PROP)
        mark_cover(ref_jobs)
        results = pool.map(ref_jobs + hist_jobs, progress="C20")
        refs = {}
        for key, r in zip(ref_keys, results[: len(ref_jobs)]):
            refs[key] = unwrap(r, "C20 pristine call")["obs"][0]
        hist_obs: dict = {}
        hist_clock: dict = {}
        clock_reads = clock_jumps = 0
        for (i, rep_i), r in zip(hist_index, results[len(ref_jobs):]):
            o = unwrap(r, "C20 history")
            hist_obs[(i, rep_i)] = o["obs"]
            hist_clock[(i, rep_i)] = o["clock_reads"]
            clock_reads += o["clock_reads"]
            clock_jumps += o["clock_jumps"]
        digest = hashlib.sha256()
        seen = set()
        ops_in_histories = 0
        abstract, outcome_kinds = set(), {}
        raise_kinds = {}
        # oracle 1: history independence
        for i, h in enumerate(histories):
            obs = hist_obs[(i, 0)]
            ops_in_histories += len(obs)
            abstract.add(hashlib.sha256(json.dumps([ampworld.op_key(o) for o in h["ops"]]).encode()).hexdigest()[:16])
            for k, (op, o) in enumerate(zip(h["ops"], obs)):
                digest.update(hashlib.sha256(json.dumps(o, sort_keys=True).encode()).digest())
                outcome_kinds[o["kind"]] = outcome_kinds.get(o["kind"], 0) + 1
                if o["kind"] == "raise":
                    raise_kinds[o["exc"]] = raise_kinds.get(o["exc"], 0) + 1
                if op["op"] in ampworld.FAULT_OPS or o.get("faulted"):
                    continue  # nothing is promised about the killed / faulted call itself, only about the calls after it
                d = ampworld.compare_obs(refs[(ampworld.op_key(op), h["hashseed"])], o)
                if d is not None:
                    sig = {"check": "history_independence", "kind": ampworld.op_kind(op).rsplit(":", 1)[0]}
                    key = json.dumps(sig, sort_keys=True)
                    if key in seen or len(seen) >= 4:
                        break
                    seen.add(key)
                    case = {"pool": slim, "ops": h["ops"][: k + 1], "clock": h["clock"], "limit_s": 900}
                    first = {"verdict": "violation", "signature": sig}
                    confirm_minimise_report(rep, pool, ENGINE, case, first, f"{seed}-history-{i}", candidates=ampworld.c20_candidates,
                                            func="run_history_case", hashseed=h["hashseed"], known_keys=known_keys,
                                            meta={"verif_seed": seed, "run_index": i, "tier": tier, "limit_s": 2400},
                                            budget_evals=48, budget_s=240, limit_s=2400)
                    break
        # oracle 3: exact reproducibility of a whole history in two pristine processes
        twice_checked = 0
        for i, h in enumerate(histories):
            if not h["twice"]:
                continue
            twice_checked += 1
            oa, ob = hist_obs[(i, 0)], hist_obs[(i, 1)]
            if hist_clock[(i, 0)] < sum(1 for o in h["ops"] if o["op"] == "convert"):
                oa, ob = [ampworld.strip_obs_timestamp(o) for o in oa], [ampworld.strip_obs_timestamp(o) for o in ob]
            if oa != ob and "exact" not in seen:
                seen.add("exact")
                case = {"pool": slim, "ops": h["ops"], "clock": h["clock"], "mode": "twice", "limit_s": 900}
                confirm_minimise_report(rep, pool, ENGINE, case, {"verdict": "violation", "signature": {"check": "exact_reproducibility"}},
                                        f"{seed}-twice-{i}", candidates=ampworld.c20_candidates, func="run_history_case", hashseed=h["hashseed"],
                                        meta={"verif_seed": seed, "run_index": i, "tier": tier, "limit_s": 2400}, budget_evals=40, budget_s=400, limit_s=2400)
        # oracle 2: hash-seed independence of every distinct call
        pairs_checked = 0
        for k in sorted({k for k, _ in ref_keys}):
            base = refs[(k, hashseeds[0])]
            for hs in hashseeds[1:]:
                pairs_checked += 1
                d = ampworld.compare_obs(base, refs[(k, hs)])
                if d is not None and "hashseed" not in seen:
                    seen.add("hashseed")
                    body = {"kind": "hashseed_pair", "hashseeds": [hashseeds[0], hs], "engine": ENGINE, "func": "run_ops",
                            "case": {"pool": slim, "ops": [need[(k, hs)]]},
                            "violation": {"signature": {"check": "hash_seed_independence"}, "detail": d}, "minimised": False}
                    path = write_replay(PROP, f"{seed}-hashseed-{hs}", body)
                    rep.violations.append({"signature": body["violation"]["signature"], "replay": path})
                    print(f"VIOLATION property={PROP} replay={path}", flush=True)
                    log(f"[C20] hash seeds {hashseeds[0]} vs {hs}: {json.dumps(d)[:500]}")
        # oracle 2, widened cheaply: every converting call in its canonical (returning) form under further hash seeds
        extra = EXTRA_HASHSEEDS[: cfg["extra_hashseeds"]]
        canon = {}
        for (k, hs), op in need.items():
            if op["op"] == "convert":
                c = {kk: vv for kk, vv in op.items() if kk != "via"}
                c["ret"] = True
                canon.setdefault(ampworld.op_key(c), c)
        if extra and canon:
            base_jobs = [{"engine": ENGINE, "func": "run_ops", "hashseed": hashseeds[0], "limit_s": 2400, "args": {"pool": slim, "ops": [c]}}
                         for _, c in sorted(canon.items()) if (ampworld.op_key(c), hashseeds[0]) not in refs]
            base_keys = [k for k, c in sorted(canon.items()) if (k, hashseeds[0]) not in refs]
            for k, r in zip(base_keys, pool.map(base_jobs)):
                refs[(k, hashseeds[0])] = unwrap(r, "C20 canonical call")["obs"][0]
            with ZygotePool(workers=default_workers(), hashseeds=extra, preload="worlds.ampworld") as pool2:
                ejobs, ekeys = [], []
                for k, c in sorted(canon.items()):
                    for hs in extra:
                        ejobs.append({"engine": ENGINE, "func": "run_ops", "hashseed": hs, "limit_s": 2400, "args": {"pool": slim, "ops": [c]}})
                        ekeys.append((k, hs))
                for (k, hs), r in zip(ekeys, pool2.map(ejobs, progress="C20 hash seeds")):
                    o = unwrap(r, "C20 extra hash seed")["obs"][0]
                    pairs_checked += 1
                    d = ampworld.compare_obs(refs[(k, hashseeds[0])], o)
                    if d is not None and "hashseed" not in seen:
                        seen.add("hashseed")
                        body = {"kind": "hashseed_pair", "hashseeds": [hashseeds[0], hs], "engine": ENGINE, "func": "run_ops",
                                "case": {"pool": slim, "ops": [canon[k]]},
                                "violation": {"signature": {"check": "hash_seed_independence"}, "detail": d}, "minimised": False}
                        path = write_replay(PROP, f"{seed}-hashseed-{hs}", body)
                        rep.violations.append({"signature": body["violation"]["signature"], "replay": path})
                        print(f"VIOLATION property={PROP} replay={path}", flush=True)
                        log(f"[C20] hash seeds {hashseeds[0]} vs {hs}: {json.dumps(d)[:500]}")
        # true fresh interpreters for a sample (thorough): fork-equals-fresh cross-check
        fresh_checked = 0
        if cfg["fresh_interpreters"]:
            fresh_checked = fresh_interpreter_crosscheck(rep, slim, histories[: cfg["fresh_interpreters"]], hist_obs)
        samples = [{"pool_files": [{"name": f["name"], "tags": f.get("tags"), "text": f["text"][:600]} for f in pool_files[:2]],
                    "history": histories[0]["ops"], "hashseed": histories[0]["hashseed"], "clock_deltas": histories[0]["clock"]}]
    cover_hits = set(pool.cover_hits)
    ev.cov.update({
        "evaluations": ops_in_histories,
        "distinct_nontrivial": len(abstract),
        "rule": "one evaluation = one read/convert call executed inside a history (2-5 calls over a pool of option files with different "
                "resonance content, across the three reader classes and both converters) and compared, after normalisation, with the same single "
                "call in a pristine process of the same hash seed; distinct = distinct sequences of (call kind, file); every history has at least "
                "two calls, so every counted history is non-trivial",
        "samples": samples,
        "histories": len(histories),
        "pristine_single_call_processes": len(ref_jobs),
        "hash_seeds": hashseeds,
        "extra_hash_seeds_for_converting_calls": EXTRA_HASHSEEDS[: cfg["extra_hashseeds"]],
        "hash_seed_pairs_compared": pairs_checked,
        "histories_run_twice_for_exact_reproducibility": twice_checked,
        "fresh_interpreter_histories_compared": fresh_checked,
        "pool": [{"name": f["name"], "tags": f.get("tags"), "n_decay_lines": f.get("n_decay_lines")} for f in pool_files],
        "outcome_kinds": outcome_kinds,
        "consistent_exceptions_seen": raise_kinds,
        "fault_kinds_fired": {"clock_jump_between_calls": clock_jumps, "interpreter_hash_seed_varied": len(hashseeds),
                              "call_killed_part_way": outcome_kinds.get("interrupted", 0), "kill_point_beyond_end_of_call": outcome_kinds.get("interrupt_not_reached", 0),
                              "special_table_load_met_io_error": sum(1 for i_ in range(len(histories)) for o in hist_obs[(i_, 0)] if o.get("faulted")),
                              "file_rewritten_between_calls": sum(1 for h in histories for o in h["ops"] if (o.get("inner") or o).get("content"))},
        "simulated_time": {"clock_reads": clock_reads, "clock_jumps": clock_jumps},
        "regression_replays_run": n_reg,
        "anchored_code_reach": reach_report(PROP, cover_hits),
        "log_digest": digest.hexdigest(),
        "components": {"real": ["decaylanguage.modeling (three reader classes, both converters)", "lark", "particle (incl. the one-time special-particle table load)", "pandas"],
                       "simulated": ["process life (order of calls)", "interpreter hash seed (one zygote interpreter per value)", "wall clock", "stdout", "option files in memory"],
                       "reference": ["the same single call in a pristine process, per hash seed"]},
        "unconfirmed_search_hits": len(rep.unconfirmed),
        "known_findings_seen": len(rep.known),
    })
    ev.violations = len(rep.violations)
    ev.assumptions = [
        "normalisation forgives exactly: the timestamp line, the order of spin-configuration groups in the comment header, the order of single-line "
        "declarations in the intro section and of declaration units in the parameter section (multi-line arrays are kept whole and in order); the "
        "per-amplitude code is compared in order",
        "a call that raises the same exception inside and outside a history is consistent (e.g. the coherent-sum option, finding F7) and not a C20 violation",
        "event types built from the special-particle table's pseudo-particles are not in the pool",
    ]
    ev.write()
    log(f"[C20] histories={len(histories)} calls={ops_in_histories} pristine={len(ref_jobs)} violations={len(rep.violations)} known={len(rep.known)}")
    return rep.exit_code()


def fresh_interpreter_crosscheck(rep, slim, histories, hist_obs) -> int:
    """Run whole histories in true `python -c` interpreters and compare with the forked runs."""
    src = os.environ.get("VERIF_SRC_ROOT", "/repo/src")
    n = 0
    for i, h in enumerate(histories):
        code = ("import sys, json; sys.path.insert(0, %r); sys.path.insert(0, %r); from worlds import ampworld; "
                "args = json.load(sys.stdin); print(json.dumps(ampworld.run_ops(args)))") % (os.path.dirname(os.path.dirname(os.path.abspath(__file__))), src)
        env = {"PATH": os.environ.get("PATH", ""), "PYTHONHASHSEED": str(h["hashseed"]), "NO_COLOR": "1", "PYTHONDONTWRITEBYTECODE": "1", "HOME": os.environ.get("HOME", "/root")}
        p = subprocess.run(["/venv/bin/python", "-X", "utf8", "-c", code], input=json.dumps({"pool": slim, "ops": h["ops"], "clock": h["clock"]}),
                           capture_output=True, text=True, env=env, timeout=3000)
        if p.returncode != 0:
            raise RuntimeError(f"fresh interpreter failed: {p.stderr[-400:]}")
        obs = json.loads(p.stdout.strip().splitlines()[-1])["obs"]
        n += 1
        if obs != hist_obs[(i, 0)]:
            path = write_replay(PROP, f"fresh-interpreter-{i}", {"engine": ENGINE, "func": "run_history_case", "case": {"pool": slim, "ops": h["ops"], "clock": h["clock"], "mode": "twice"},
                                                                  "python_hashseed": h["hashseed"], "violation": {"signature": {"check": "exact_reproducibility"}, "detail": "fresh interpreter differs from forked child"}})
            rep.violations.append({"signature": {"check": "exact_reproducibility"}, "replay": path})
            print(f"VIOLATION property={PROP} replay={path}", flush=True)
    return n
