"""C14 — descriptor format settings are scoped and validated."""

from __future__ import annotations

from checks.common import Reporter, confirm_minimise_report, default_workers, run_regressions
from simkit.core import mark_cover, reach_report, Evidence, log, merge_counts, run_seed
from simkit.pool import ZygotePool, unwrap
from worlds import fmtworld

ENGINE = "worlds.fmtworld"
PROP = "C14"

TIERS = {
    "quick": {"programs": 320_000, "batch": 2000},
    "thorough": {"programs": 8_000_000, "batch": 5000},
}


def batch_job(args: dict) -> dict:
    """child side: derive the seeds of this batch from (vseed, tier, start, count)."""
    seeds = [run_seed(args["vseed"], PROP, args["tier"], i) for i in range(args["start"], args["start"] + args["count"])]
    return fmtworld.run_batch({"seeds": seeds, "cfg": args.get("cfg")})


def main(tier: str, seed: int, opts) -> int:
    cfg = dict(TIERS[tier])
    if opts.get("programs"):
        cfg["programs"] = int(opts["programs"])
    ev = Evidence(PROP, tier, seed)
    rep = Reporter(PROP)
    n, b = cfg["programs"], cfg["batch"]
    jobs = []
    for start in range(0, n, b):
        jobs.append({"engine": "checks.c14", "func": "batch_job", "limit_s": 300,
                     "args": {"vseed": seed, "tier": tier, "start": start, "count": min(b, n - start)}})
    log(f"[C14] VERIF_SEED={seed} tier={tier} programs={n} batches={len(jobs)}")
    with ZygotePool(workers=default_workers(), preload="worlds.fmtworld,checks.c14") as pool:
        n_reg = run_regressions(rep, pool, PROP)
        mark_cover(jobs)
        results = [unwrap(r, "C14 batch") for r in pool.map(jobs, progress="C14")]
        faults: dict = {}
        hashes, nthashes, trans = set(), set(), set()
        programs = steps = renders = 0
        samples = []
        seen_sigs = set()
        for bi, r in enumerate(results):
            programs += r["programs"]
            steps += r["steps"]
            renders += r["renders"]
            merge_counts(faults, r["faults"])
            hashes.update(r["trace_hashes"])
            nthashes.update(r["nontrivial_hashes"])
            trans.update(r["transitions"])
            if len(samples) < 3:
                samples.extend(r["samples"][: 3 - len(samples)])
            v = r["violation"]
            if v is not None:
                sig = v["result"]["signature"]
                key = sig["check"]
                if key in seen_sigs or len(seen_sigs) >= 4:
                    continue
                seen_sigs.add(key)
                ev.violations += 1
                idx = bi * b + v["index_in_batch"]
                case = {"programs": [v["program"]]}
                path = confirm_minimise_report(rep, pool, ENGINE, case, v["result"], f"{seed}-{idx}",
                                               candidates=fmtworld.candidates,
                                               meta={"verif_seed": seed, "run_index": idx, "tier": tier})
                if path is None:
                    # not reproducible alone: replay the whole batch prefix as one multi-program case
                    seeds = [run_seed(seed, PROP, tier, i) for i in range(bi * b, idx + 1)]
                    import random

                    progs = [fmtworld.generate(random.Random(s)) for s in seeds]
                    confirm_minimise_report(rep, pool, ENGINE, {"programs": progs}, v["result"], f"{seed}-{idx}-prefix",
                                            candidates=fmtworld.candidates,
                                            meta={"verif_seed": seed, "run_index": idx, "tier": tier})
        digest_all = __import__("hashlib").sha256("".join(r["log_digest"] for r in results).encode()).hexdigest()
    cover_hits = set(pool.cover_hits)
    ev.cov.update(
        {
            "evaluations": programs,
            "distinct_nontrivial": len(nthashes),
            "rule": "one evaluation = one generated caller program (<=30 statements, depth <=6, <=4 context objects) executed "
            "from the pristine format against the stack model; distinct = distinct executed abstract traces "
            "(sequence of (statement kind, nesting depth, outcome)); non-trivial = the trace has an exceptional exit, "
            "an invalid enter/set, a re-entrant enter, a re-used context object entered under a different format, "
            "a fired injected fault inside rendering, or nesting depth >= 2",
            "samples": samples,
            "distinct_traces": len(hashes),
            "statements_executed": steps,
            "renders_compared": renders,
            "fault_kinds_fired": faults,
            "abstract_transitions_reached": len(trans),
            "abstract_transitions": sorted(trans),
            "log_digest": digest_all,
            "components": {
                "real": ["decaylanguage.utils.DescriptorFormat", "DecayChain.to_string", "_expand_decay_modes", "DaughtersDict"],
                "simulated": ["the calling program (generated)", "exceptions: SimFault raised by the program and injected via sys.settrace inside to_string()"],
                "reference": ["stack model of the format in force", "independent tree->string renderer"],
            },
            "simulated_time": "not applicable: no clock is read on this surface",
            "unconfirmed_search_hits": len(rep.unconfirmed),
            "known_findings_seen": len(rep.known),
            "regression_replays_run": n_reg,
        "anchored_code_reach": reach_report(PROP, cover_hits),
        }
    )
    ev.violations = len(rep.violations)
    ev.assumptions = [
        "a forked child of an untouched zygote is equivalent to a fresh interpreter after imports",
        "programs inside one batch are independent because each starts from the asserted pristine format (config reset by the harness between programs)",
        "exceptions are injected into block bodies and into to_string(), never into __enter__/__exit__ themselves",
        "8 % of the programs are run by a started-and-joined worker thread: thread identity without interleaving",
    ]
    ev.write()
    log(f"[C14] programs={programs} distinct_nontrivial={len(nthashes)} violations={len(rep.violations)} known={len(rep.known)}")
    return rep.exit_code()
